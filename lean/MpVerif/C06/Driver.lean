import MpVerif.C06.Model
/-! Line driver for C06: same protocol as `harness/h_prepro.cc` (parsing and printing only; every decision is a
call into `MpVerif.C06.Model`). -/
open MpVerif.C06 MpVerif.C06.ER

namespace C06Drv

def stripTwos (n : Nat) (e : Int) (fuel : Nat) : Nat × Int :=
  match fuel with
  | 0 => (n, e)
  | fuel + 1 => if n ≠ 0 ∧ n % 2 = 0 then stripTwos (n / 2) (e + 1) fuel else (n, e)

def numStr (x : ER) : String :=
  match x with
  | .ninf => "-inf"
  | .pinf => "inf"
  | .nan => "nan"
  | .fin q =>
    if q = 0 then "0" else
    let sgn := if q < 0 then "-" else ""
    let n := q.num.natAbs
    let d := q.den
    let (d', ke) := stripTwos d 0 2000
    if d' ≠ 1 then s!"{q.num}/{q.den}" else
    let (m, e) := stripTwos n 0 2000
    let e := e - ke
    if e = 0 then s!"{sgn}{m}" else s!"{sgn}{m}p{e}"

def parseNum (t : String) : Option ER :=
  if t = "inf" then some .pinf
  else if t = "-inf" then some .ninf
  else
    match t.splitOn "p" with
    | [m] => m.toInt?.map fun z => ER.fin (z : Rat)
    | [m, e] =>
      match m.toInt?, e.toInt? with
      | some mz, some ez => some (ER.fin ((mz : Rat) * (2 : Rat) ^ ez))
      | _, _ => none
    | _ => none

def parseRat (t : String) : Option Rat :=
  match parseNum t with
  | some (.fin q) => some q
  | _ => none

structure Sess where
  st : State := {}
  pending : Array VarB := #[]
  started : Bool := false
  opts : Opts := {}
  results : Array (Option Nat) := #[]
  seenLb : Array ER := #[]
  seenUb : Array ER := #[]

def Sess.start (s : Sess) : Sess :=
  if s.started then s else
  { s with started := true,
           st := { vars := s.pending, defs := s.pending.map (fun _ => none), fixed := [], opts := s.opts },
           seenLb := s.pending.map (·.lb), seenUb := s.pending.map (·.ub) }

def Sess.var? (s : Sess) (t : String) : Option Nat :=
  if t.startsWith "$" then
    match (t.drop 1).toString.toNat? with
    | some k => (s.results.getD k none)
    | none => none
  else
    match t.toNat? with
    | some v => if v < s.st.vars.size then some v else none
    | none => none

abbrev P := StateM (List String)

def next? : StateM (List String) (Option String) := do
  match (← get) with
  | [] => return none
  | t :: r => set r; return some t

def pVars (s : Sess) (ts : List String) : Option (List Nat × List String) :=
  match ts with
  | [] => none
  | k :: r =>
    match k.toNat? with
    | none => none
    | some k =>
      if k > 64 then none else
      let rec go (n : Nat) (r : List String) (acc : List Nat) : Option (List Nat × List String) :=
        match n with
        | 0 => some (acc.reverse, r)
        | n + 1 => match r with
          | [] => none
          | t :: r' => match s.var? t with
            | some v => go n r' (v :: acc)
            | none => none
      go k r []

def pLin (s : Sess) (ts : List String) : Option (LinT × List String) :=
  match ts with
  | [] => none
  | k :: r =>
    match k.toNat? with
    | none => none
    | some k =>
      if k > 64 then none else
      let rec go (n : Nat) (r : List String) (acc : LinT) : Option (LinT × List String) :=
        match n with
        | 0 => some (acc.reverse, r)
        | n + 1 => match r with
          | c :: v :: r' => match parseRat c, s.var? v with
            | some c, some v => go n r' ((c, v) :: acc)
            | _, _ => none
          | _ => none
      go k r []

def pQuad (s : Sess) (ts : List String) : Option (QuadT × List String) :=
  match ts with
  | [] => none
  | k :: r =>
    match k.toNat? with
    | none => none
    | some k =>
      if k > 64 then none else
      let rec go (n : Nat) (r : List String) (acc : QuadT) : Option (QuadT × List String) :=
        match n with
        | 0 => some (acc.reverse, r)
        | n + 1 => match r with
          | c :: v1 :: v2 :: r' => match parseRat c, s.var? v1, s.var? v2 with
            | some c, some v1, some v2 => go n r' ((c, v1, v2) :: acc)
            | _, _, _ => none
          | _ => none
      go k r []

def unFn? : String → Option UnFn
  | "exp" => some .exp | "log" => some .log | "sin" => some .sin | "cos" => some .cos | "tan" => some .tan
  | "asin" => some .asin | "acos" => some .acos | "atan" => some .atan | "sinh" => some .sinh | "cosh" => some .cosh
  | "tanh" => some .tanh | "asinh" => some .asinh | "acosh" => some .acosh | "atanh" => some .atanh
  | _ => none

def unName : UnFn → String
  | .exp => "exp" | .log => "log" | .sin => "sin" | .cos => "cos" | .tan => "tan" | .asin => "asin" | .acos => "acos"
  | .atan => "atan" | .sinh => "sinh" | .cosh => "cosh" | .tanh => "tanh" | .asinh => "asinh" | .acosh => "acosh"
  | .atanh => "atanh"

def parseCon (s : Sess) (ts : List String) : Option Con :=
  match ts with
  | "lin" :: c0 :: r => do
    let c0 ← parseRat c0; let (lt, r) ← pLin s r; if r ≠ [] then none else some (.lin c0 lt)
  | "quad" :: c0 :: r => do
    let c0 ← parseRat c0; let (lt, r) ← pLin s r; let (qt, r) ← pQuad s r
    if r ≠ [] then none else some (.quad c0 lt qt)
  | ["pow", a, p] => do some (.pow (← s.var? a) (← parseRat p))
  | ["expa", a, p] => do some (.unp .expa (← s.var? a) (← parseRat p))
  | ["loga", a, p] => do some (.unp .loga (← s.var? a) (← parseRat p))
  | "min" :: r => do let (a, r) ← pVars s r; if r ≠ [] then none else some (.min a)
  | "max" :: r => do let (a, r) ← pVars s r; if r ≠ [] then none else some (.max a)
  | "and" :: r => do let (a, r) ← pVars s r; if r ≠ [] then none else some (.and a)
  | "or" :: r => do let (a, r) ← pVars s r; if r ≠ [] then none else some (.or a)
  | "alldiff" :: r => do let (a, r) ← pVars s r; if r ≠ [] then none else some (.alldiff a)
  | "count" :: r => do let (a, r) ← pVars s r; if r ≠ [] then none else some (.count a)
  | "nvar" :: r => do let (a, r) ← pVars s r; if r ≠ [] then none else some (.nvar a)
  | "nconst" :: k :: r => do
    let k ← parseRat k; let (a, r) ← pVars s r; if r ≠ [] then none else some (.nconst k a)
  | ["abs", a] => do some (.abs (← s.var? a))
  | ["not", a] => do some (.not (← s.var? a))
  | ["div", a, b] => do some (.div (← s.var? a) (← s.var? b))
  | ["ifthen", a, b, c] => do some (.ifthen (← s.var? a) (← s.var? b) (← s.var? c))
  | ["impl", a, b, c] => do some (.impl (← s.var? a) (← s.var? b) (← s.var? c))
  | "clin" :: kind :: rhs :: r => do
    let kind ← kind.toInt?; let rhs ← parseRat rhs; let (lt, r) ← pLin s r
    if r ≠ [] ∨ kind < -2 ∨ kind > 2 then none else some (.clin kind rhs lt)
  | "cquad" :: kind :: rhs :: r => do
    let kind ← kind.toInt?; let rhs ← parseRat rhs; let (lt, r) ← pLin s r; let (qt, r) ← pQuad s r
    if r ≠ [] ∨ kind < -2 ∨ kind > 2 then none else some (.cquad kind rhs lt qt)
  | [f, a] => do some (.un (← unFn? f) (← s.var? a))
  | _ => none

def linStr (ts : LinT) : String :=
  ts.foldl (fun acc t => acc ++ s!" {numStr (.fin t.1)} {t.2}") (toString ts.length)
def quadStr (qs : QuadT) : String :=
  qs.foldl (fun acc t => acc ++ s!" {numStr (.fin t.1)} {t.2.1} {t.2.2}") (toString qs.length)
def argsStr (as : List Nat) : String :=
  as.foldl (fun acc v => acc ++ s!" {v}") (toString as.length)

def conStr : Con → String
  | .lin c0 ts => s!"lin {numStr (.fin c0)} {linStr ts}"
  | .quad c0 ts qs => s!"quad {numStr (.fin c0)} {linStr ts} {quadStr qs}"
  | .pow a p => s!"pow {a} {numStr (.fin p)}"
  | .min as => s!"min {argsStr as}"
  | .max as => s!"max {argsStr as}"
  | .and as => s!"and {argsStr as}"
  | .or as => s!"or {argsStr as}"
  | .alldiff as => s!"alldiff {argsStr as}"
  | .count as => s!"count {argsStr as}"
  | .nvar as => s!"nvar {argsStr as}"
  | .nconst k as => s!"nconst {numStr (.fin k)} {argsStr as}"
  | .abs a => s!"abs {a}"
  | .not a => s!"not {a}"
  | .div a b => s!"div {a} {b}"
  | .ifthen a b c => s!"ifthen {a} {b} {c}"
  | .impl a b c => s!"impl {a} {b} {c}"
  | .clin k rhs ts => s!"clin {k} {numStr (.fin rhs)} {linStr ts}"
  | .cquad k rhs ts qs => s!"cquad {k} {numStr (.fin rhs)} {linStr ts} {quadStr qs}"
  | .un f a => s!"{unName f} {a}"
  | .unp .expa a p => s!"expa {a} {numStr (.fin p)}"
  | .unp .loga a p => s!"loga {a} {numStr (.fin p)}"

def Sess.tail (s : Sess) : Sess × String := Id.run do
  let mut out := ""
  let mut lb := s.seenLb
  let mut ub := s.seenUb
  for v in [0:s.seenLb.size] do
    let b := s.st.env v
    if b.lb ≠ lb.getD v .nan ∨ b.ub ≠ ub.getD v .nan then
      out := out ++ s!" | narrowed {v} {numStr b.lb} {numStr b.ub}"
      lb := lb.setIfInBounds v b.lb
      ub := ub.setIfInBounds v b.ub
  for v in [s.seenLb.size:s.st.vars.size] do
    let b := s.st.env v
    let d := match s.st.defs.getD v none with
      | some c => conStr c
      | none => "none"
    out := out ++ s!" | v {v} {numStr b.lb} {numStr b.ub} {if b.int then "1" else "0"} {d}"
    lb := lb.push b.lb
    ub := ub.push b.ub
  return ({ s with seenLb := lb, seenUb := ub }, out)

def step (s : Sess) (line : String) : Sess × String :=
  match (line.trimAscii.toString.splitOn " ").filter (· ≠ "") with
  | ["case", _] => ({}, "ok")
  | ["var", l, u, t] =>
    if s.started then (s, "bad-op") else
    match parseNum l, parseNum u, t.toNat? with
    | some l, some u, some t => ({ s with pending := s.pending.push { lb := l, ub := u, int := t ≠ 0 } }, "ok")
    | _, _, _ => (s, "bad-op")
  | ["opt", name, v] =>
    if s.started then (s, "bad-op") else
    let b := v ≠ "0"
    let o := s.opts
    match name with
    | "eqresult" => ({ s with opts := { o with eqResult := b } }, "ok")
    | "eqbinary" => ({ s with opts := { o with eqBinVar := b } }, "ok")
    | "unnest" => ({ s with opts := { o with unnest := b } }, "ok")
    | _ => (s, "bad-op")
  | "op" :: rest =>
    let s := s.start
    match parseCon s rest with
    | none => (s, "bad-op")
    | some c =>
      let (st', r) := s.st.assign c.construct
      match r with
      | .const cst =>
        let (st'', v) := State.resultVar (st', r)
        let s' := { s with st := st'', results := s.results.push v }
        let (s'', t) := s'.tail
        (s'', s!"const {numStr cst}" ++ t)
      | .var v =>
        let s' := { s with st := st', results := s.results.push (some v) }
        let (s'', t) := s'.tail
        (s'', s!"var {v}" ++ t)
      | .throw w =>
        let s' := { s with st := st', results := s.results.push none }
        let (s'', t) := s'.tail
        (s'', s!"throw {w}" ++ t)
      | .unsupported =>
        let s' := { s with st := st', results := s.results.push none }
        (s', "unsupported")
  | _ => (s, "bad-op")

end C06Drv

partial def loop (h : IO.FS.Stream) (out : IO.FS.Stream) (s : C06Drv.Sess) : IO Unit := do
  let line ← h.getLine
  if line.isEmpty then return ()
  let (s', o) := C06Drv.step s line
  out.putStrLn o
  loop h out s'

def main : IO Unit := do
  let out ← IO.getStdout
  loop (← IO.getStdin) out {}

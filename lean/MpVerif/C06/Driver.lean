/-! Line driver for C06 (stub; replaced when the model is written). -/
def main : IO Unit := pure ()

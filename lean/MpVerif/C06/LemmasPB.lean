import MpVerif.C06.LemmasPBlo
import MpVerif.C06.LemmasPBhi
/-! `ProductBounds` is sound on EVERY box (finite, half-infinite, infinite bounds; NaN corners `0·∞` skipped or propagated as in the C++). -/
namespace MpVerif.C06
open ER

theorem plb_1111 (x y a b c d : Rat) (hxl : a ≤ x) (hxu : x ≤ b) (hyl : c ≤ y) (hyu : y ≤ d) :
    lbW (minElem (mul (fin a) (fin c)) [mul (fin a) (fin d), mul (fin b) (fin c), mul (fin b) (fin d)]) (x * y) := by
  obtain ⟨m, hm, hm1, hml⟩ := minElem_fin (a * c) [a * d, b * c, b * d]
  simp only [List.map_cons, List.map_nil] at hm
  simp only [mul]; rw [hm]
  exact Or.inr (corner_le_mul hxl hxu hyl hyu m hm1 (hml _ (by simp)) (hml _ (by simp)) (hml _ (by simp)))
theorem pub_1111 (x y a b c d : Rat) (hxl : a ≤ x) (hxu : x ≤ b) (hyl : c ≤ y) (hyu : y ≤ d) :
    ubW (maxElem (mul (fin a) (fin c)) [mul (fin a) (fin d), mul (fin b) (fin c), mul (fin b) (fin d)]) (x * y) := by
  obtain ⟨M, hM, hM1, hMl⟩ := maxElem_fin (a * c) [a * d, b * c, b * d]
  simp only [List.map_cons, List.map_nil] at hM
  simp only [mul]; rw [hM]
  exact Or.inr (mul_le_corner hxl hxu hyl hyu M hM1 (hMl _ (by simp)) (hMl _ (by simp)) (hMl _ (by simp)))

/-- corner products of two different variables -/
theorem corners_sound (lx ux ly uy : ER) (x y : Rat) (hxl : lbOK lx x) (hxu : ubOK ux x) (hyl : lbOK ly y) (hyu : ubOK uy y) :
    lbW (minElem (mul lx ly) [mul lx uy, mul ux ly, mul ux uy]) (x * y) ∧
    ubW (maxElem (mul lx ly) [mul lx uy, mul ux ly, mul ux uy]) (x * y) := by
  cases lx <;> cases ux <;> cases ly <;> cases uy <;> simp only [lbOK, ubOK] at hxl hxu hyl hyu <;>
    first
    | exact hxl.elim | exact hxu.elim | exact hyl.elim | exact hyu.elim
    | exact ⟨plb_0000 _ _  , pub_0000 _ _  ⟩
    | exact ⟨plb_0001 _ _ _ hyu, pub_0001 _ _ _ hyu⟩
    | exact ⟨plb_0010 _ _ _ hyl, pub_0010 _ _ _ hyl⟩
    | exact ⟨plb_0011 _ _ _ _ hyl hyu, pub_0011 _ _ _ _ hyl hyu⟩
    | exact ⟨plb_0100 _ _ _ hxu, pub_0100 _ _ _ hxu⟩
    | exact ⟨plb_0101 _ _ _ _ hxu hyu, pub_0101 _ _ _ _ hxu hyu⟩
    | exact ⟨plb_0110 _ _ _ _ hxu hyl, pub_0110 _ _ _ _ hxu hyl⟩
    | exact ⟨plb_0111 _ _ _ _ _ hxu hyl hyu, pub_0111 _ _ _ _ _ hxu hyl hyu⟩
    | exact ⟨plb_1000 _ _ _ hxl, pub_1000 _ _ _ hxl⟩
    | exact ⟨plb_1001 _ _ _ _ hxl hyu, pub_1001 _ _ _ _ hxl hyu⟩
    | exact ⟨plb_1010 _ _ _ _ hxl hyl, pub_1010 _ _ _ _ hxl hyl⟩
    | exact ⟨plb_1011 _ _ _ _ _ hxl hyl hyu, pub_1011 _ _ _ _ _ hxl hyl hyu⟩
    | exact ⟨plb_1100 _ _ _ _ hxl hxu, pub_1100 _ _ _ _ hxl hxu⟩
    | exact ⟨plb_1101 _ _ _ _ _ hxl hxu hyu, pub_1101 _ _ _ _ _ hxl hxu hyu⟩
    | exact ⟨plb_1110 _ _ _ _ _ hxl hxu hyl, pub_1110 _ _ _ _ _ hxl hxu hyl⟩
    | exact ⟨plb_1111 _ _ _ _ _ _ hxl hxu hyl hyu, pub_1111 _ _ _ _ _ _ hxl hxu hyl hyu⟩

/-- the square rule (same variable twice) -/
theorem square_sound (lx ux : ER) (x : Rat) (hxl : lbOK lx x) (hxu : ubOK ux x) :
    lbW (if le lx (fin 0) && le (fin 0) ux then fin 0 else smin (mul lx lx) (mul ux ux)) (x * x) ∧
    ubW (smax (mul lx lx) (mul ux ux)) (x * x) := by
  cases lx with
  | ninf =>
    cases ux with
    | pinf =>
      exact ⟨Or.inr (by simp [le, ER.lt, ER.eq, lbOK]; exact mul_self_nonneg x), Or.inr (by simp [mul, smax, ER.lt, ubOK])⟩
    | fin b =>
      simp only [ubOK] at hxu
      refine ⟨Or.inr ?_, Or.inr (by simp [mul, smax, ER.lt, ubOK])⟩
      by_cases hb : 0 ≤ b
      · have : (le ninf (fin 0) && le (fin 0) (fin b)) = true := by simp [le, ER.lt, ER.eq, le_fin, hb]; rcases lt_or_eq_of_le hb with h | h <;> simp [h]
        simp only [this, if_true, lbOK]; exact mul_self_nonneg x
      · have hb' : b < 0 := not_le.mp hb
        have : (le ninf (fin 0) && le (fin 0) (fin b)) = false := by simp [le_fin, hb]
        simp only [this, mul, smin, ER.lt]
        simp only [Bool.false_eq_true, if_false, lbOK]
        exact sq_ge_of_neg hb' hxu
    | ninf => exact hxu.elim
    | nan => exact hxu.elim
  | fin a =>
    simp only [lbOK] at hxl
    cases ux with
    | pinf =>
      refine ⟨Or.inr ?_, Or.inr (by simp [mul, smax, ER.lt, ubOK])⟩
      by_cases ha : a ≤ 0
      · have : (le (fin a) (fin 0) && le (fin 0) pinf) = true := by rw [le_fin]; simp [ha, le, ER.lt]
        simp only [this, if_true, lbOK]; exact mul_self_nonneg x
      · have ha' : 0 < a := not_le.mp ha
        have : (le (fin a) (fin 0) && le (fin 0) pinf) = false := by simp [le_fin, ha]
        simp only [this, mul, smin, ER.lt]
        simp only [Bool.false_eq_true, if_false, lbOK]
        exact sq_ge_of_pos ha' hxl
    | fin b =>
      simp only [ubOK] at hxu
      simp only [mul, le_fin]
      constructor
      · right
        by_cases hz : a ≤ 0 ∧ 0 ≤ b
        · have : (decide (a ≤ 0) && decide (0 ≤ b)) = true := by simp [hz.1, hz.2]
          simp only [this, if_true, lbOK]; exact mul_self_nonneg _
        · have : (decide (a ≤ 0) && decide (0 ≤ b)) = false := by
            rw [Bool.and_eq_false_iff]; rw [not_and_or] at hz
            rcases hz with h1 | h1
            · left; simp [h1]
            · right; simp [h1]
          have hz' : 0 < a ∨ b < 0 := by
            rw [not_and_or] at hz; rcases hz with h1 | h1
            · left; exact not_le.mp h1
            · right; exact not_le.mp h1
          simp only [this, smin, ER.lt]
          by_cases hc : b * b < a * a
          · simp only [hc, decide_true, if_true, lbOK]
            rcases hz' with h0 | h0
            · have := sq_ge_of_pos h0 hxl; exact le_trans hc.le this
            · exact sq_ge_of_neg h0 hxu
          · simp only [hc, decide_false, lbOK]
            have : (false = true) = False := by simp
            simp only [this, if_false]
            rcases hz' with h0 | h0
            · exact sq_ge_of_pos h0 hxl
            · have := sq_ge_of_neg h0 hxu; linarith [not_lt.mp hc]
      · right
        simp only [smax, ER.lt]
        by_cases hc : a * a < b * b
        · simp only [hc, decide_true, if_true, ubOK]
          rcases sq_le_of_bounds hxl hxu with h1 | h1 <;> linarith
        · simp only [hc, decide_false, ubOK]
          have : (false = true) = False := by simp
          simp only [this, if_false]
          rcases sq_le_of_bounds hxl hxu with h1 | h1 <;> linarith [not_lt.mp hc]
    | ninf => exact hxu.elim
    | nan => exact hxu.elim
  | pinf => exact hxl.elim
  | nan => exact hxl.elim

/-- **`ProductBounds` is sound on every box.** -/
theorem productBounds_sound_all (e : Env) (val : Val) (h : Feasible e val) (x y : Nat) :
    lbW (productBounds e x y).1 (val x * val y) ∧ ubW (productBounds e x y).2 (val x * val y) := by
  obtain ⟨hxl, hxu, _⟩ := h x
  obtain ⟨hyl, hyu, _⟩ := h y
  unfold productBounds
  by_cases hxy : x = y
  · subst hxy
    simp only [ne_eq, not_true_eq_false, if_false]
    exact square_sound _ _ _ hxl hxu
  · simp only [ne_eq, hxy, not_false_eq_true, if_true]
    exact corners_sound _ _ _ _ _ _ hxl hxu hyl hyu

end MpVerif.C06

import Mathlib.Analysis.SpecialFunctions.Trigonometric.Arctan
import Mathlib.Analysis.SpecialFunctions.Trigonometric.Inverse
import Mathlib.Analysis.SpecialFunctions.Trigonometric.DerivHyp
import Mathlib.Analysis.SpecialFunctions.Arsinh
import Mathlib.Analysis.Real.Pi.Bounds
import MpVerif.C06.Sem
/-! Ranges of the real transcendental functions against the constants `PreprocessConstraint` uses (proof-only). -/
namespace MpVerif.C06
open Real

theorem piLit_lt_pi : ((piLit : ℚ) : ℝ) < π := by
  have h : ((piLit : ℚ) : ℝ) < 3.14159265358979323846 := by
    unfold piLit; push_cast; norm_num
  exact lt_trans h Real.pi_gt_d20

theorem real_ranges (x : ℝ) :
    (0 ≤ exp x) ∧ (-1 ≤ sin x ∧ sin x ≤ 1) ∧ (-1 ≤ cos x ∧ cos x ≤ 1) ∧ (1 ≤ cosh x) ∧
    (-1 ≤ tanh x ∧ tanh x ≤ 1) ∧ (0 ≤ arccos x) ∧ (arcsin x ≤ ((piLit : ℚ) : ℝ)) := by
  refine ⟨(exp_pos x).le, ⟨neg_one_le_sin x, sin_le_one x⟩, ⟨neg_one_le_cos x, cos_le_one x⟩, one_le_cosh x, ?_,
    arccos_nonneg x, ?_⟩
  · have hc : 0 < cosh x := cosh_pos x
    have h1 : sinh x < cosh x := sinh_lt_cosh x
    have h2 : -cosh x < sinh x := by
      have := sinh_lt_cosh (-x); rw [sinh_neg, cosh_neg] at this; linarith
    rw [tanh_eq_sinh_div_cosh]
    constructor
    · rw [le_div_iff₀ hc]; linarith
    · rw [div_le_iff₀ hc]; linarith
  · have h1 : arcsin x ≤ π / 2 := arcsin_le_pi_div_two x
    have h2 : (3 : ℝ) < ((piLit : ℚ) : ℝ) := by unfold piLit; push_cast; norm_num
    have h3 : π ≤ 4 := Real.pi_le_four
    linarith

/-- the three bounds that are NOT sound (open finding C06-pi-literal) -/
theorem real_pi_literal_cuts :
    (arcsin (-1) < -((piLit : ℚ) : ℝ) / 2) ∧ (((piLit : ℚ) : ℝ) < arccos (-1)) ∧
    (∃ x : ℝ, ((piLit : ℚ) : ℝ) / 2 < arctan x) ∧ (∃ x : ℝ, arctan x < -((piLit : ℚ) : ℝ) / 2) := by
  have hp := piLit_lt_pi
  refine ⟨by rw [arcsin_neg_one]; linarith, by rw [arccos_neg_one]; exact hp, ?_, ?_⟩
  · -- arctan is onto (−π/2, π/2)
    have hmid : ((piLit : ℚ) : ℝ) / 2 < π / 2 := by linarith
    have hpos : -(π / 2) < (((piLit : ℚ) : ℝ) / 2 + π / 2) / 2 := by
      have : (0 : ℝ) < ((piLit : ℚ) : ℝ) := by unfold piLit; push_cast; norm_num
      linarith
    refine ⟨tan ((((piLit : ℚ) : ℝ) / 2 + π / 2) / 2), ?_⟩
    rw [arctan_tan hpos (by linarith)]
    linarith
  · have hmid : ((piLit : ℚ) : ℝ) / 2 < π / 2 := by linarith
    have hpos : (0 : ℝ) < ((piLit : ℚ) : ℝ) := by unfold piLit; push_cast; norm_num
    refine ⟨tan (-((((piLit : ℚ) : ℝ) / 2 + π / 2) / 2)), ?_⟩
    rw [arctan_tan (by linarith) (by linarith)]
    linarith

end MpVerif.C06

import Mathlib.Analysis.SpecialFunctions.Trigonometric.Arctan
import Mathlib.Analysis.SpecialFunctions.Trigonometric.Inverse
import Mathlib.Analysis.SpecialFunctions.Trigonometric.DerivHyp
import Mathlib.Analysis.SpecialFunctions.Arsinh
import Mathlib.Analysis.Real.Pi.Bounds
import MpVerif.C06.Sem
/-! Ranges of the real transcendental functions against the constants `PreprocessConstraint` uses (proof-only). -/
namespace MpVerif.C06
open Real

theorem piLit_lt_pi : ((piLit : ℚ) : ℝ) < π := by
  have h : ((piLit : ℚ) : ℝ) < 3.14159265358979323846 := by
    unfold piLit; push_cast; norm_num
  exact lt_trans h Real.pi_gt_d20

theorem real_ranges (x : ℝ) :
    (0 ≤ exp x) ∧ (-1 ≤ sin x ∧ sin x ≤ 1) ∧ (-1 ≤ cos x ∧ cos x ≤ 1) ∧ (1 ≤ cosh x) ∧
    (-1 ≤ tanh x ∧ tanh x ≤ 1) ∧ (0 ≤ arccos x) ∧ (arcsin x ≤ ((piLit : ℚ) : ℝ)) := by
  refine ⟨(exp_pos x).le, ⟨neg_one_le_sin x, sin_le_one x⟩, ⟨neg_one_le_cos x, cos_le_one x⟩, one_le_cosh x, ?_,
    arccos_nonneg x, ?_⟩
  · have hc : 0 < cosh x := cosh_pos x
    have h1 : sinh x < cosh x := sinh_lt_cosh x
    have h2 : -cosh x < sinh x := by
      have := sinh_lt_cosh (-x); rw [sinh_neg, cosh_neg] at this; linarith
    rw [tanh_eq_sinh_div_cosh]
    constructor
    · rw [le_div_iff₀ hc]; linarith
    · rw [div_le_iff₀ hc]; linarith
  · have h1 : arcsin x ≤ π / 2 := arcsin_le_pi_div_two x
    have h2 : (3 : ℝ) < ((piLit : ℚ) : ℝ) := by unfold piLit; push_cast; norm_num
    have h3 : π ≤ 4 := Real.pi_le_four
    linarith

/-- over ℝ (no rounding) three of the bounds are not met exactly, because the double `Pi()` is below π -/
theorem real_pi_literal_cuts :
    (arcsin (-1) < -((piLit : ℚ) : ℝ) / 2) ∧ (((piLit : ℚ) : ℝ) < arccos (-1)) ∧
    (∃ x : ℝ, ((piLit : ℚ) : ℝ) / 2 < arctan x) ∧ (∃ x : ℝ, arctan x < -((piLit : ℚ) : ℝ) / 2) := by
  have hp := piLit_lt_pi
  refine ⟨by rw [arcsin_neg_one]; linarith, by rw [arccos_neg_one]; exact hp, ?_, ?_⟩
  · -- arctan is onto (−π/2, π/2)
    have hmid : ((piLit : ℚ) : ℝ) / 2 < π / 2 := by linarith
    have hpos : -(π / 2) < (((piLit : ℚ) : ℝ) / 2 + π / 2) / 2 := by
      have : (0 : ℝ) < ((piLit : ℚ) : ℝ) := by unfold piLit; push_cast; norm_num
      linarith
    refine ⟨tan ((((piLit : ℚ) : ℝ) / 2 + π / 2) / 2), ?_⟩
    rw [arctan_tan hpos (by linarith)]
    linarith
  · have hmid : ((piLit : ℚ) : ℝ) / 2 < π / 2 := by linarith
    have hpos : (0 : ℝ) < ((piLit : ℚ) : ℝ) := by unfold piLit; push_cast; norm_num
    refine ⟨tan (-((((piLit : ℚ) : ℝ) / 2 + π / 2) / 2)), ?_⟩
    rw [arctan_tan (by linarith) (by linarith)]
    linarith


/-- `Pi()` is the double nearest to π: doubles in `[2,4)` are spaced `2⁻⁵¹` apart and `0 < π − Pi() < 2⁻⁵²` -/
theorem piLit_nearest : 0 < π - ((piLit : ℚ) : ℝ) ∧ π - ((piLit : ℚ) : ℝ) < 1 / 2 ^ 52 := by
  refine ⟨by linarith [piLit_lt_pi], ?_⟩
  have h : (3.14159265358979323847 : ℝ) - ((piLit : ℚ) : ℝ) < 1 / 2 ^ 52 := by
    unfold piLit; push_cast; norm_num
  linarith [Real.pi_lt_d20]

/-- ranges of the *rounded* inverse trigonometric functions: for every monotone rounding `rn` that maps `±π/2`, `π`
to `±Pi()/2`, `Pi()` (what round-to-nearest does, by `piLit_nearest`) and fixes `0` -/
theorem rounded_ranges (rn : ℝ → ℝ) (hm : Monotone rn) (h0 : rn 0 = 0)
    (h1 : rn (π / 2) = ((piLit : ℚ) : ℝ) / 2) (h2 : rn (-(π / 2)) = -((piLit : ℚ) : ℝ) / 2)
    (h3 : rn π = ((piLit : ℚ) : ℝ)) (x : ℝ) :
    (-((piLit : ℚ) : ℝ) / 2 ≤ rn (arcsin x) ∧ rn (arcsin x) ≤ ((piLit : ℚ) : ℝ)) ∧
    (0 ≤ rn (arccos x) ∧ rn (arccos x) ≤ ((piLit : ℚ) : ℝ)) ∧
    (-((piLit : ℚ) : ℝ) / 2 ≤ rn (arctan x) ∧ rn (arctan x) ≤ ((piLit : ℚ) : ℝ) / 2) := by
  have hp : (0 : ℝ) < ((piLit : ℚ) : ℝ) := by unfold piLit; push_cast; norm_num
  refine ⟨⟨?_, ?_⟩, ⟨?_, ?_⟩, ⟨?_, ?_⟩⟩
  · rw [← h2]; exact hm (neg_pi_div_two_le_arcsin x)
  · have := hm (arcsin_le_pi_div_two x); rw [h1] at this; linarith
  · rw [← h0]; exact hm (arccos_nonneg x)
  · rw [← h3]; exact hm (arccos_le_pi x)
  · rw [← h2]; exact hm (neg_pi_div_two_lt_arctan x).le
  · rw [← h1]; exact hm (arctan_lt_pi_div_two x).le

end MpVerif.C06

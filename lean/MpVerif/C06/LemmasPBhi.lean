import MpVerif.C06.Lemmas
import Mathlib.Tactic.Positivity
/-! ProductBounds on boxes with infinite bounds: one lemma per shape of the four bounds (finite / infinite), for the lower (`plb_*`) and the
upper (`pub_*`) bound; generated text, proved by sign case analysis + nlinarith.  Proof-only file. -/
namespace MpVerif.C06
open ER

set_option maxHeartbeats 8000000 in
theorem pub_0000 (x y  : Rat)  : ubW (maxElem (mul ninf ninf) [mul ninf pinf, mul pinf ninf, mul pinf pinf]) (x * y) := by
  simp only [mul, infTimes, minElem, maxElem, List.foldl, ER.lt] <;>
  split_ifs <;> (try simp only [*, ER.lt, if_true, if_false, not_true_eq_false, not_false_eq_true]) <;> (try split_ifs) <;>
  simp only [lbW, ubW, lbOK, ubOK, reduceCtorEq, false_or, or_true, true_or, or_false] <;>
    (try simp only [eq_iff_iff, iff_true, iff_false, not_lt, not_le, not_false_eq_true, not_true_eq_false, decide_eq_true_eq] at *) <;>
    first
    | trivial
    | contradiction
    | (exfalso; linarith)
    | (subst_vars; nlinarith [mul_self_nonneg x])
    | nlinarith [mul_self_nonneg x]

set_option maxHeartbeats 8000000 in
theorem pub_0001 (x y d : Rat) (hyu : y ≤ d) : ubW (maxElem (mul ninf ninf) [mul ninf (fin d), mul pinf ninf, mul pinf (fin d)]) (x * y) := by
  simp only [mul, infTimes, minElem, maxElem, List.foldl, ER.lt] <;>
  split_ifs <;> (try simp only [*, ER.lt, if_true, if_false, not_true_eq_false, not_false_eq_true]) <;> (try split_ifs) <;>
  simp only [lbW, ubW, lbOK, ubOK, reduceCtorEq, false_or, or_true, true_or, or_false] <;>
    (try simp only [eq_iff_iff, iff_true, iff_false, not_lt, not_le, not_false_eq_true, not_true_eq_false, decide_eq_true_eq] at *) <;>
    first
    | trivial
    | contradiction
    | (exfalso; linarith)
    | (subst_vars; nlinarith [mul_self_nonneg x])
    | nlinarith [mul_self_nonneg x]

set_option maxHeartbeats 8000000 in
theorem pub_0010 (x y c : Rat) (hyl : c ≤ y) : ubW (maxElem (mul ninf (fin c)) [mul ninf pinf, mul pinf (fin c), mul pinf pinf]) (x * y) := by
  simp only [mul, infTimes, minElem, maxElem, List.foldl, ER.lt] <;>
  split_ifs <;> (try simp only [*, ER.lt, if_true, if_false, not_true_eq_false, not_false_eq_true]) <;> (try split_ifs) <;>
  simp only [lbW, ubW, lbOK, ubOK, reduceCtorEq, false_or, or_true, true_or, or_false] <;>
    (try simp only [eq_iff_iff, iff_true, iff_false, not_lt, not_le, not_false_eq_true, not_true_eq_false, decide_eq_true_eq] at *) <;>
    first
    | trivial
    | contradiction
    | (exfalso; linarith)
    | (subst_vars; nlinarith [mul_self_nonneg x])
    | nlinarith [mul_self_nonneg x]

set_option maxHeartbeats 8000000 in
theorem pub_0011 (x y c d : Rat) (hyl : c ≤ y) (hyu : y ≤ d) : ubW (maxElem (mul ninf (fin c)) [mul ninf (fin d), mul pinf (fin c), mul pinf (fin d)]) (x * y) := by
  simp only [mul, infTimes, minElem, maxElem, List.foldl, ER.lt] <;>
  split_ifs <;> (try simp only [*, ER.lt, if_true, if_false, not_true_eq_false, not_false_eq_true]) <;> (try split_ifs) <;>
  simp only [lbW, ubW, lbOK, ubOK, reduceCtorEq, false_or, or_true, true_or, or_false] <;>
    (try simp only [eq_iff_iff, iff_true, iff_false, not_lt, not_le, not_false_eq_true, not_true_eq_false, decide_eq_true_eq] at *) <;>
    first
    | trivial
    | contradiction
    | (exfalso; linarith)
    | (subst_vars; nlinarith [mul_self_nonneg x])
    | nlinarith [mul_self_nonneg x]

set_option maxHeartbeats 8000000 in
theorem pub_0100 (x y b : Rat) (hxu : x ≤ b) : ubW (maxElem (mul ninf ninf) [mul ninf pinf, mul (fin b) ninf, mul (fin b) pinf]) (x * y) := by
  simp only [mul, infTimes, minElem, maxElem, List.foldl, ER.lt] <;>
  split_ifs <;> (try simp only [*, ER.lt, if_true, if_false, not_true_eq_false, not_false_eq_true]) <;> (try split_ifs) <;>
  simp only [lbW, ubW, lbOK, ubOK, reduceCtorEq, false_or, or_true, true_or, or_false] <;>
    (try simp only [eq_iff_iff, iff_true, iff_false, not_lt, not_le, not_false_eq_true, not_true_eq_false, decide_eq_true_eq] at *) <;>
    first
    | trivial
    | contradiction
    | (exfalso; linarith)
    | (subst_vars; nlinarith [mul_self_nonneg x])
    | nlinarith [mul_self_nonneg x]

set_option maxHeartbeats 8000000 in
theorem pub_0101 (x y b d : Rat) (hxu : x ≤ b) (hyu : y ≤ d) : ubW (maxElem (mul ninf ninf) [mul ninf (fin d), mul (fin b) ninf, mul (fin b) (fin d)]) (x * y) := by
  simp only [mul, infTimes, minElem, maxElem, List.foldl, ER.lt] <;>
  split_ifs <;> (try simp only [*, ER.lt, if_true, if_false, not_true_eq_false, not_false_eq_true]) <;> (try split_ifs) <;>
  simp only [lbW, ubW, lbOK, ubOK, reduceCtorEq, false_or, or_true, true_or, or_false] <;>
    (try simp only [eq_iff_iff, iff_true, iff_false, not_lt, not_le, not_false_eq_true, not_true_eq_false, decide_eq_true_eq] at *) <;>
    first
    | trivial
    | contradiction
    | (exfalso; linarith)
    | (subst_vars; nlinarith [mul_nonneg (sub_nonneg.2 hxu) (sub_nonneg.2 hyu), mul_self_nonneg x])
    | nlinarith [mul_nonneg (sub_nonneg.2 hxu) (sub_nonneg.2 hyu), mul_self_nonneg x]

set_option maxHeartbeats 8000000 in
theorem pub_0110 (x y b c : Rat) (hxu : x ≤ b) (hyl : c ≤ y) : ubW (maxElem (mul ninf (fin c)) [mul ninf pinf, mul (fin b) (fin c), mul (fin b) pinf]) (x * y) := by
  simp only [mul, infTimes, minElem, maxElem, List.foldl, ER.lt] <;>
  split_ifs <;> (try simp only [*, ER.lt, if_true, if_false, not_true_eq_false, not_false_eq_true]) <;> (try split_ifs) <;>
  simp only [lbW, ubW, lbOK, ubOK, reduceCtorEq, false_or, or_true, true_or, or_false] <;>
    (try simp only [eq_iff_iff, iff_true, iff_false, not_lt, not_le, not_false_eq_true, not_true_eq_false, decide_eq_true_eq] at *) <;>
    first
    | trivial
    | contradiction
    | (exfalso; linarith)
    | (subst_vars; nlinarith [mul_nonneg (sub_nonneg.2 hxu) (sub_nonneg.2 hyl), mul_self_nonneg x])
    | nlinarith [mul_nonneg (sub_nonneg.2 hxu) (sub_nonneg.2 hyl), mul_self_nonneg x]

set_option maxHeartbeats 8000000 in
theorem pub_0111 (x y b c d : Rat) (hxu : x ≤ b) (hyl : c ≤ y) (hyu : y ≤ d) : ubW (maxElem (mul ninf (fin c)) [mul ninf (fin d), mul (fin b) (fin c), mul (fin b) (fin d)]) (x * y) := by
  rcases le_total 0 b with hb | hb <;>
  rcases lt_trichotomy c 0 with hc | hc | hc <;>
  rcases lt_trichotomy d 0 with hd | hd | hd <;>
  rcases le_total 0 y with hs | hs <;>
  simp only [mul, infTimes, minElem, maxElem, List.foldl, ER.lt] <;>
  split_ifs <;> (try simp only [*, ER.lt, if_true, if_false, not_true_eq_false, not_false_eq_true]) <;> (try split_ifs) <;>
  simp only [lbW, ubW, lbOK, ubOK, reduceCtorEq, false_or, or_true, true_or, or_false] <;>
    (try simp only [eq_iff_iff, iff_true, iff_false, not_lt, not_le, not_false_eq_true, not_true_eq_false, decide_eq_true_eq] at *) <;>
    first
    | trivial
    | contradiction
    | (exfalso; linarith)
    | (subst_vars; nlinarith [mul_nonneg (sub_nonneg.2 hxu) (sub_nonneg.2 hyl), mul_nonneg (sub_nonneg.2 hxu) (sub_nonneg.2 hyu), mul_self_nonneg x])
    | nlinarith [mul_nonneg (sub_nonneg.2 hxu) (sub_nonneg.2 hyl), mul_nonneg (sub_nonneg.2 hxu) (sub_nonneg.2 hyu), mul_self_nonneg x]

set_option maxHeartbeats 8000000 in
theorem pub_1000 (x y a : Rat) (hxl : a ≤ x) : ubW (maxElem (mul (fin a) ninf) [mul (fin a) pinf, mul pinf ninf, mul pinf pinf]) (x * y) := by
  simp only [mul, infTimes, minElem, maxElem, List.foldl, ER.lt] <;>
  split_ifs <;> (try simp only [*, ER.lt, if_true, if_false, not_true_eq_false, not_false_eq_true]) <;> (try split_ifs) <;>
  simp only [lbW, ubW, lbOK, ubOK, reduceCtorEq, false_or, or_true, true_or, or_false] <;>
    (try simp only [eq_iff_iff, iff_true, iff_false, not_lt, not_le, not_false_eq_true, not_true_eq_false, decide_eq_true_eq] at *) <;>
    first
    | trivial
    | contradiction
    | (exfalso; linarith)
    | (subst_vars; nlinarith [mul_self_nonneg x])
    | nlinarith [mul_self_nonneg x]

set_option maxHeartbeats 8000000 in
theorem pub_1001 (x y a d : Rat) (hxl : a ≤ x) (hyu : y ≤ d) : ubW (maxElem (mul (fin a) ninf) [mul (fin a) (fin d), mul pinf ninf, mul pinf (fin d)]) (x * y) := by
  simp only [mul, infTimes, minElem, maxElem, List.foldl, ER.lt] <;>
  split_ifs <;> (try simp only [*, ER.lt, if_true, if_false, not_true_eq_false, not_false_eq_true]) <;> (try split_ifs) <;>
  simp only [lbW, ubW, lbOK, ubOK, reduceCtorEq, false_or, or_true, true_or, or_false] <;>
    (try simp only [eq_iff_iff, iff_true, iff_false, not_lt, not_le, not_false_eq_true, not_true_eq_false, decide_eq_true_eq] at *) <;>
    first
    | trivial
    | contradiction
    | (exfalso; linarith)
    | (subst_vars; nlinarith [mul_nonneg (sub_nonneg.2 hxl) (sub_nonneg.2 hyu), mul_self_nonneg x])
    | nlinarith [mul_nonneg (sub_nonneg.2 hxl) (sub_nonneg.2 hyu), mul_self_nonneg x]

set_option maxHeartbeats 8000000 in
theorem pub_1010 (x y a c : Rat) (hxl : a ≤ x) (hyl : c ≤ y) : ubW (maxElem (mul (fin a) (fin c)) [mul (fin a) pinf, mul pinf (fin c), mul pinf pinf]) (x * y) := by
  simp only [mul, infTimes, minElem, maxElem, List.foldl, ER.lt] <;>
  split_ifs <;> (try simp only [*, ER.lt, if_true, if_false, not_true_eq_false, not_false_eq_true]) <;> (try split_ifs) <;>
  simp only [lbW, ubW, lbOK, ubOK, reduceCtorEq, false_or, or_true, true_or, or_false] <;>
    (try simp only [eq_iff_iff, iff_true, iff_false, not_lt, not_le, not_false_eq_true, not_true_eq_false, decide_eq_true_eq] at *) <;>
    first
    | trivial
    | contradiction
    | (exfalso; linarith)
    | (subst_vars; nlinarith [mul_nonneg (sub_nonneg.2 hxl) (sub_nonneg.2 hyl), mul_self_nonneg x])
    | nlinarith [mul_nonneg (sub_nonneg.2 hxl) (sub_nonneg.2 hyl), mul_self_nonneg x]

set_option maxHeartbeats 8000000 in
theorem pub_1011 (x y a c d : Rat) (hxl : a ≤ x) (hyl : c ≤ y) (hyu : y ≤ d) : ubW (maxElem (mul (fin a) (fin c)) [mul (fin a) (fin d), mul pinf (fin c), mul pinf (fin d)]) (x * y) := by
  rcases le_total 0 a with ha | ha <;>
  rcases lt_trichotomy c 0 with hc | hc | hc <;>
  rcases lt_trichotomy d 0 with hd | hd | hd <;>
  rcases le_total 0 y with hs | hs <;>
  simp only [mul, infTimes, minElem, maxElem, List.foldl, ER.lt] <;>
  split_ifs <;> (try simp only [*, ER.lt, if_true, if_false, not_true_eq_false, not_false_eq_true]) <;> (try split_ifs) <;>
  simp only [lbW, ubW, lbOK, ubOK, reduceCtorEq, false_or, or_true, true_or, or_false] <;>
    (try simp only [eq_iff_iff, iff_true, iff_false, not_lt, not_le, not_false_eq_true, not_true_eq_false, decide_eq_true_eq] at *) <;>
    first
    | trivial
    | contradiction
    | (exfalso; linarith)
    | (subst_vars; nlinarith [mul_nonneg (sub_nonneg.2 hxl) (sub_nonneg.2 hyl), mul_nonneg (sub_nonneg.2 hxl) (sub_nonneg.2 hyu), mul_self_nonneg x])
    | nlinarith [mul_nonneg (sub_nonneg.2 hxl) (sub_nonneg.2 hyl), mul_nonneg (sub_nonneg.2 hxl) (sub_nonneg.2 hyu), mul_self_nonneg x]

set_option maxHeartbeats 8000000 in
theorem pub_1100 (x y a b : Rat) (hxl : a ≤ x) (hxu : x ≤ b) : ubW (maxElem (mul (fin a) ninf) [mul (fin a) pinf, mul (fin b) ninf, mul (fin b) pinf]) (x * y) := by
  simp only [mul, infTimes, minElem, maxElem, List.foldl, ER.lt] <;>
  split_ifs <;> (try simp only [*, ER.lt, if_true, if_false, not_true_eq_false, not_false_eq_true]) <;> (try split_ifs) <;>
  simp only [lbW, ubW, lbOK, ubOK, reduceCtorEq, false_or, or_true, true_or, or_false] <;>
    (try simp only [eq_iff_iff, iff_true, iff_false, not_lt, not_le, not_false_eq_true, not_true_eq_false, decide_eq_true_eq] at *) <;>
    first
    | trivial
    | contradiction
    | (exfalso; linarith)
    | (subst_vars; nlinarith [mul_self_nonneg x])
    | nlinarith [mul_self_nonneg x]

set_option maxHeartbeats 8000000 in
theorem pub_1101 (x y a b d : Rat) (hxl : a ≤ x) (hxu : x ≤ b) (hyu : y ≤ d) : ubW (maxElem (mul (fin a) ninf) [mul (fin a) (fin d), mul (fin b) ninf, mul (fin b) (fin d)]) (x * y) := by
  rcases lt_trichotomy a 0 with ha | ha | ha <;>
  rcases lt_trichotomy b 0 with hb | hb | hb <;>
  rcases le_total 0 d with hd | hd <;>
  rcases le_total 0 x with hs | hs <;>
  simp only [mul, infTimes, minElem, maxElem, List.foldl, ER.lt] <;>
  split_ifs <;> (try simp only [*, ER.lt, if_true, if_false, not_true_eq_false, not_false_eq_true]) <;> (try split_ifs) <;>
  simp only [lbW, ubW, lbOK, ubOK, reduceCtorEq, false_or, or_true, true_or, or_false] <;>
    (try simp only [eq_iff_iff, iff_true, iff_false, not_lt, not_le, not_false_eq_true, not_true_eq_false, decide_eq_true_eq] at *) <;>
    first
    | trivial
    | contradiction
    | (exfalso; linarith)
    | (subst_vars; nlinarith [mul_nonneg (sub_nonneg.2 hxl) (sub_nonneg.2 hyu), mul_nonneg (sub_nonneg.2 hxu) (sub_nonneg.2 hyu), mul_self_nonneg x])
    | nlinarith [mul_nonneg (sub_nonneg.2 hxl) (sub_nonneg.2 hyu), mul_nonneg (sub_nonneg.2 hxu) (sub_nonneg.2 hyu), mul_self_nonneg x]

set_option maxHeartbeats 8000000 in
theorem pub_1110 (x y a b c : Rat) (hxl : a ≤ x) (hxu : x ≤ b) (hyl : c ≤ y) : ubW (maxElem (mul (fin a) (fin c)) [mul (fin a) pinf, mul (fin b) (fin c), mul (fin b) pinf]) (x * y) := by
  rcases lt_trichotomy a 0 with ha | ha | ha <;>
  rcases lt_trichotomy b 0 with hb | hb | hb <;>
  rcases le_total 0 c with hc | hc <;>
  rcases le_total 0 x with hs | hs <;>
  simp only [mul, infTimes, minElem, maxElem, List.foldl, ER.lt] <;>
  split_ifs <;> (try simp only [*, ER.lt, if_true, if_false, not_true_eq_false, not_false_eq_true]) <;> (try split_ifs) <;>
  simp only [lbW, ubW, lbOK, ubOK, reduceCtorEq, false_or, or_true, true_or, or_false] <;>
    (try simp only [eq_iff_iff, iff_true, iff_false, not_lt, not_le, not_false_eq_true, not_true_eq_false, decide_eq_true_eq] at *) <;>
    first
    | trivial
    | contradiction
    | (exfalso; linarith)
    | (subst_vars; nlinarith [mul_nonneg (sub_nonneg.2 hxl) (sub_nonneg.2 hyl), mul_nonneg (sub_nonneg.2 hxu) (sub_nonneg.2 hyl), mul_self_nonneg x])
    | nlinarith [mul_nonneg (sub_nonneg.2 hxl) (sub_nonneg.2 hyl), mul_nonneg (sub_nonneg.2 hxu) (sub_nonneg.2 hyl), mul_self_nonneg x]

end MpVerif.C06

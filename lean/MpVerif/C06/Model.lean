/-!
# C06 model: result bounds / type / constant / alias inference for functional constraints

Mirrors, function by function,
* `include/mp/flat/preprocess.h`      (`PreprocessInfo`, `is_integer`)
* `include/mp/flat/expr_bounds.h`     (`BoundComputations::ComputeBoundsAndType`, `ProductBounds`, `AddBoundsAndType`)
* `include/mp/flat/constr_prepro.h`   (`ConstraintPreprocessors::PreprocessConstraint` overloads)
* `include/mp/flat/convert_functional.h` (`BasicFCC::Convert`, `AddResultVariable`)
* `include/mp/flat/converter_model.h` (`lb_array`, …, `is_binary_var`, `common_type`)
* the pieces of `converter.h` they call (`AddVar`, `MakeFixedVar`, `NarrowVarBounds`, `MakeComplementVar`, map lookup).

Doubles are modelled by `ER` = −∞ | finite rational | +∞ | NaN with the IEEE / `std::min` / `std::max`
conventions of the C++ (NaN-comparisons are false, `0·∞ = NaN`, `∞−∞ = NaN`).  Rounding is *not* modelled: the
correspondence runs on dyadic data for which every operation is exact.  Core Lean only (this file is linked
into the driver).
-/

namespace MpVerif.C06

/-- a double whose finite values are exact rationals -/
inductive ER where
  | ninf
  | fin (q : Rat)
  | pinf
  | nan
  deriving DecidableEq, Repr, Inhabited

namespace ER

def neg : ER → ER
  | ninf => pinf
  | pinf => ninf
  | fin q => fin (-q)
  | nan => nan

def add : ER → ER → ER
  | fin a, fin b => fin (a + b)
  | fin _, ninf => ninf
  | fin _, pinf => pinf
  | ninf, fin _ => ninf
  | pinf, fin _ => pinf
  | ninf, ninf => ninf
  | pinf, pinf => pinf
  | _, _ => nan

/-- ±∞ scaled by the sign of a finite factor (`0·∞ = NaN`) -/
def infTimes (pos : Bool) (q : Rat) : ER :=
  if q = 0 then nan else if (0 < q) = pos then pinf else ninf

def mul : ER → ER → ER
  | fin a, fin b => fin (a * b)
  | fin a, pinf => infTimes true a
  | fin a, ninf => infTimes false a
  | pinf, fin b => infTimes true b
  | ninf, fin b => infTimes false b
  | pinf, pinf => pinf
  | ninf, ninf => pinf
  | pinf, ninf => ninf
  | ninf, pinf => ninf
  | _, _ => nan

/-- IEEE division (zeros are +0: the generator never produces −0) -/
def div : ER → ER → ER
  | fin a, fin b => if b = 0 then (if a = 0 then nan else if 0 < a then pinf else ninf) else fin (a / b)
  | fin _, pinf => fin 0
  | fin _, ninf => fin 0
  | pinf, fin b => if 0 ≤ b then pinf else ninf
  | ninf, fin b => if 0 ≤ b then ninf else pinf
  | _, _ => nan

/-- IEEE `<` -/
def lt : ER → ER → Bool
  | fin a, fin b => a < b
  | ninf, fin _ => true
  | ninf, pinf => true
  | fin _, pinf => true
  | _, _ => false

/-- IEEE `==` -/
def eq : ER → ER → Bool
  | fin a, fin b => a = b
  | ninf, ninf => true
  | pinf, pinf => true
  | _, _ => false

/-- IEEE `<=` -/
def le (a b : ER) : Bool := lt a b || eq a b

/-- `std::max(a, b)` = `(a < b) ? b : a` -/
def smax (a b : ER) : ER := if lt a b then b else a
/-- `std::min(a, b)` = `(b < a) ? b : a` -/
def smin (a b : ER) : ER := if lt b a then b else a

def floor : ER → ER
  | fin q => fin (q.floor : Int)
  | x => x
def ceil : ER → ER
  | fin q => fin (q.ceil : Int)
  | x => x

/-- `is_integer(n)` / `is_integer_value(n)`: `floor(n) == ceil(n)` (true for ±∞, false for NaN) -/
def isInteger (x : ER) : Bool := eq (floor x) (ceil x)

/-- `*std::min_element` of a non-empty array given as head and tail -/
def minElem (a : ER) (l : List ER) : ER := l.foldl (fun s x => if lt x s then x else s) a
/-- `*std::max_element` -/
def maxElem (a : ER) (l : List ER) : ER := l.foldl (fun s x => if lt s x then x else s) a

/-- `std::pow(b, n)` for an integer exponent `n ≠ 0` (exact) -/
def powi (b : ER) (n : Int) : ER :=
  match b with
  | fin q => if q = 0 ∧ n < 0 then pinf else fin (q ^ n)
  | pinf => if 0 < n then pinf else fin 0
  | ninf => if 0 < n then (if n % 2 = 0 then pinf else ninf) else fin 0
  | nan => nan

/-- `std::pow(b, p)` for a non-integer exponent `p`, on the arguments where the result is exact
(`0`, `1`, `+∞`); `none` elsewhere (the executable model does not represent irrational results). -/
def powf (b : ER) (p : Rat) : Option ER :=
  match b with
  | fin q => if q = 0 then some (if 0 < p then fin 0 else pinf) else if q = 1 then some (fin 1) else none
  | pinf => some (if 0 < p then pinf else fin 0)
  | _ => none

def pow (b : ER) (p : Rat) : Option ER :=
  if p.den = 1 then some (powi b p.num) else powf b p

end ER

open ER

/-- `Rat` version of `is_integer` -/
def ratIsInt (q : Rat) : Bool := q.den = 1

/-- bounds and type of one variable of the flat model -/
structure VarB where
  lb : ER
  ub : ER
  int : Bool
  deriving DecidableEq, Repr, Inhabited

abbrev Env := Nat → VarB

/-! the literals of `constr_keeper.h` -/
/-- `Pi()`: the double nearest to the literal `3.14159265358979323846`, i.e. the double nearest to π
(= 884279719003555·2⁻⁴⁸ = 0x400921FB54442D18, below π by 1.22e-16) -/
def piLit : Rat := 884279719003555 / 2 ^ 48
def practInf : Rat := 100000000000000000000              -- `PracticallyInf()` = 1e20
/-- `std::numeric_limits<double>::min()` = 2^-1022 and `max()` -/
def dblMin : Rat := 1 / (2 ^ 1022)
def dblMax : Rat := (2 ^ 53 - 1) * 2 ^ 971
/-- the double nearest to 1e-6 -/
def logLbLit : Rat := 4722366482869645 / 2 ^ 72

/-- `PreprocessInfo` without the result variable -/
structure Pre where
  lb : ER := ninf
  ub : ER := pinf
  int : Bool := false
  deriving DecidableEq, Repr, Inhabited

def Pre.narrow (p : Pre) (l u : ER) : Pre := { p with lb := smax p.lb l, ub := smin p.ub u }
def Pre.setType (p : Pre) (t : Bool) : Pre := { p with int := t }
def Pre.isConstant (p : Pre) : Bool := eq p.lb p.ub

/-! ## converter_model.h helpers -/

def isFixed (e : Env) (v : Nat) : Bool := eq (e v).lb (e v).ub

def isBinaryVar (e : Env) (v : Nat) : Bool :=
  (eq (fin 0) (e v).lb && eq (fin 1) (e v).ub && (e v).int)
  || (isFixed e v && (eq (fin 0) (e v).lb || eq (fin 1) (e v).lb))

def commonType (e : Env) (vs : List Nat) : Bool :=
  vs.all fun v => (e v).int || (isFixed e v && isInteger (e v).lb)

def lbArray (e : Env) (vs : List Nat) : ER := vs.foldl (fun r v => smin r (e v).lb) pinf
def lbMaxArray (e : Env) (vs : List Nat) : ER := vs.foldl (fun r v => smax r (e v).lb) ninf
def ubArray (e : Env) (vs : List Nat) : ER := vs.foldl (fun r v => smax r (e v).ub) ninf
def ubMinArray (e : Env) (vs : List Nat) : ER := vs.foldl (fun r v => smin r (e v).ub) pinf

/-! ## expr_bounds.h -/

abbrev LinT := List (Rat × Nat)
abbrev QuadT := List (Rat × Nat × Nat)

/-- `ComputeBoundsAndType(const LinTerms&)`; the C++ loop runs from the last term to the first -/
def boundsLin (e : Env) (ts : LinT) : Pre :=
  ts.foldr (fun t r =>
    let c := t.1; let b := e t.2
    let r' : Pre := if 0 ≤ c then { r with lb := add r.lb (mul (fin c) b.lb), ub := add r.ub (mul (fin c) b.ub) }
                    else { r with lb := add r.lb (mul (fin c) b.ub), ub := add r.ub (mul (fin c) b.lb) }
    { r' with int := r'.int && (b.int && ratIsInt c) })
    { lb := fin 0, ub := fin 0, int := true }

/-- `ProductBounds(x, y)` -/
def productBounds (e : Env) (x y : Nat) : ER × ER :=
  let lx := (e x).lb; let ly := (e y).lb; let ux := (e x).ub; let uy := (e y).ub
  if x ≠ y then
    let a := mul lx ly; let rest := [mul lx uy, mul ux ly, mul ux uy]
    (minElem a rest, maxElem a rest)
  else
    (if le lx (fin 0) && le (fin 0) ux then fin 0 else smin (mul lx lx) (mul ux ux),
     smax (mul lx lx) (mul ux ux))

/-- `ComputeBoundsAndType(const QuadTerms&)` -/
def boundsQuadT (e : Env) (qs : QuadT) : Pre :=
  qs.foldr (fun t r =>
    let c := t.1; let v1 := t.2.1; let v2 := t.2.2
    let pb := productBounds e v1 v2
    let r' : Pre := if 0 ≤ c then { r with lb := add r.lb (mul (fin c) pb.1), ub := add r.ub (mul (fin c) pb.2) }
                    else { r with lb := add r.lb (mul (fin c) pb.2), ub := add r.ub (mul (fin c) pb.1) }
    { r' with int := r'.int && ((e v1).int && (e v2).int && ratIsInt c) })
    { lb := fin 0, ub := fin 0, int := true }

/-- `AddBoundsAndType` -/
def addBounds (a b : Pre) : Pre := { lb := add a.lb b.lb, ub := add a.ub b.ub, int := a.int && b.int }

/-- `ComputeBoundsAndType(const QuadAndLinTerms&)` -/
def boundsQL (e : Env) (ts : LinT) (qs : QuadT) : Pre := addBounds (boundsLin e ts) (boundsQuadT e qs)

/-- `ComputeBoundsAndType(const AlgebraicExpression<Body>&)` on top of the body's result -/
def withConst (r : Pre) (c0 : Rat) : Pre :=
  { lb := add r.lb (fin c0), ub := add r.ub (fin c0), int := r.int && ratIsInt c0 }

/-! ## the constraint language (flat functional constraints) -/

inductive UnFn | exp | log | sin | cos | tan | asin | acos | atan | sinh | cosh | tanh | asinh | acosh | atanh
  deriving DecidableEq, Repr, Inhabited
inductive UnPFn | expa | loga
  deriving DecidableEq, Repr, Inhabited

inductive Con where
  | lin (c0 : Rat) (ts : LinT)
  | quad (c0 : Rat) (ts : LinT) (qs : QuadT)
  | pow (a : Nat) (p : Rat)
  | min (as : List Nat)
  | max (as : List Nat)
  | and (as : List Nat)
  | or (as : List Nat)
  | alldiff (as : List Nat)
  | count (as : List Nat)
  | nvar (as : List Nat)
  | nconst (k : Rat) (as : List Nat)
  | abs (a : Nat)
  | not (a : Nat)
  | div (a b : Nat)
  | ifthen (c t f : Nat)
  | impl (c t f : Nat)
  | clin (kind : Int) (rhs : Rat) (ts : LinT)
  | cquad (kind : Int) (rhs : Rat) (ts : LinT) (qs : QuadT)
  | un (f : UnFn) (a : Nat)
  | unp (f : UnPFn) (a : Nat) (p : Rat)
  deriving DecidableEq, Repr, Inhabited

/-! ## `LinTerms::sort_terms`, `QuadTerms::sort_terms` (src/std_constr.cc) -/

/-- insert/accumulate into an association list kept sorted by key (`std::map<int,double>::operator[] +=`) -/
def accInsert (k : Nat) (c : Rat) : List (Nat × Rat) → List (Nat × Rat)
  | [] => [(k, c)]
  | (k', c') :: m => if k < k' then (k, c) :: (k', c') :: m
                     else if k = k' then (k', c' + c) :: m
                     else (k', c') :: accInsert k c m

def sortLin (ts : LinT) : LinT :=
  let m := ts.foldl (fun m t => if t.1 = 0 then m else accInsert t.2 t.1 m) []
  if m.length < ts.length then (m.filter (fun kc => kc.2 ≠ 0)).map (fun kc => (kc.2, kc.1)) else ts

def accInsert2 (k : Nat × Nat) (c : Rat) : List ((Nat × Nat) × Rat) → List ((Nat × Nat) × Rat)
  | [] => [(k, c)]
  | (k', c') :: m => if k.1 < k'.1 ∨ (k.1 = k'.1 ∧ k.2 < k'.2) then (k, c) :: (k', c') :: m
                     else if k = k' then (k', c' + c) :: m
                     else (k', c') :: accInsert2 k c m

def sortQuad (qs : QuadT) : QuadT :=
  let m := qs.foldl (fun m t => if t.1 = 0 then m else
      accInsert2 (if t.2.1 < t.2.2 then (t.2.1, t.2.2) else (t.2.2, t.2.1)) t.1 m) []
  (m.filter (fun kc => kc.2 ≠ 0)).map (fun kc => (kc.2, kc.1.1, kc.1.2))

def negLin (ts : LinT) : LinT := ts.map fun t => (-t.1, t.2)
def negQuad (qs : QuadT) : QuadT := qs.map fun t => (-t.1, t.2)

/-- what the C++ constructors do to the data handed to them: `QuadAndLinTerms(lt, qt)` calls `sort_terms()` -/
def Con.construct : Con → Con
  | .quad c0 ts qs => .quad c0 (sortLin ts) (sortQuad qs)
  | .cquad k rhs ts qs => .cquad k rhs (sortLin ts) (sortQuad qs)
  | c => c

/-! ## constr_prepro.h — the pure parts (bounds / type / decisions) -/

/-- what `PreprocessConstraint` decided for one constraint -/
inductive Decision where
  /-- nothing special: use `pre` (constant if `lb == ub`), with the (possibly modified) constraint -/
  | keep (pre : Pre) (con : Con)
  /-- `set_result_var(existing variable)` -/
  | alias (v : Nat)
  /-- the result is the result variable of another constraint, converted first with `AssignResultVar2Args` -/
  | redirect (con : Con)
  /-- the C++ raises an error (`MP_RAISE`) -/
  | raise (what : String)
  /-- the model does not represent this case exactly -/
  | unsupported
  deriving Repr, Inhabited

/-- `PreprocessConstraint(PowConstraint&)` -/
def preproPow (e : Env) (a : Nat) (p : Rat) : Decision :=
  if p = 0 then .keep (({} : Pre).narrow (fin 1) (fin 1)) (.pow a p)
  else if p = 1 then .alias a
  else
    let lbx := (e a).lb; let ubx := (e a).ub
    let lbxNeg := lt lbx (fin 0)
    let ubxPos := lt (fin 0) ubx
    let powInt := ratIsInt p
    if (!powInt && lbxNeg) || (decide (p < 0) && lbxNeg) then .keep {} (.pow a p)
    else
      match ER.pow lbx p, ER.pow ubx p with
      | some lbr, some ubr =>
        let pre0 : Pre := if powInt && decide (0 ≤ p) then ({} : Pre).setType (e a).int else {}
        let (lbr, ubr) := if ratIsInt (p / 2) && lbxNeg && ubxPos then (fin 0, smax lbr ubr) else (lbr, ubr)
        .keep (pre0.narrow (smin lbr ubr) (smax lbr ubr)) (.pow a p)
      | _, _ => .unsupported

/-- `PreprocessConstraint(AbsConstraint&)` -/
def preproAbs (e : Env) (a : Nat) : Decision :=
  let lb := (e a).lb; let ub := (e a).ub
  if le (fin 0) lb then .alias a
  else if le ub (fin 0) then .redirect (.lin 0 [(-1, a)])
  else .keep ((({} : Pre).narrow (fin 0) (smax (neg lb) ub)).setType (e a).int) (.abs a)

/-- converter options read by the preprocessors (`cvt:pre:eqresult`, `cvt:pre:eqbinary`, `cvt:pre:unnest`; all default 1) -/
structure Opts where
  eqResult : Bool := true
  eqBinVar : Bool := true
  unnest : Bool := true
  deriving DecidableEq, Repr, Inhabited

/-- `FixEqualityResult` -/
def fixEqualityResult (b : Pre) (rhs : Rat) (pre : Pre) : Option Pre :=
  if lt (fin rhs) b.lb || lt b.ub (fin rhs) then some (pre.narrow (fin 0) (fin 0))
  else if eq b.lb (fin rhs) && eq b.ub (fin rhs) then some (pre.narrow (fin 1) (fin 1))
  else if b.int && !ratIsInt rhs then some (pre.narrow (fin 0) (fin 0))
  else none

/-- `[0,1]`, INTEGER -/
def preBool : Pre := (({} : Pre).narrow (fin 0) (fin 1)).setType true

/-- `ComputeValue(cc, {})` for an empty comparison: `0 <kind> rhs` -/
def cmpKind (kind : Int) (body rhs : Rat) : Bool :=
  if kind = -2 then body < rhs else if kind = -1 then body ≤ rhs else if kind = 0 then body = rhs
  else if kind = 1 then body ≥ rhs else body > rhs

def b2r (b : Bool) : Rat := if b then 1 else 0

/-- `PreprocessConstraint(CondLinConEQ&)` -/
def preproCondLinEQO (o : Opts) (e : Env) (rhs : Rat) (ts : LinT) : Decision :=
  if ts.isEmpty then
    let r := fin (b2r (cmpKind 0 0 rhs))
    .keep (({} : Pre).narrow r r) (.clin 0 rhs ts)
  else
    let ts1 := sortLin ts
    match ts1 with
    | [] => .unsupported        -- C++: `coef(0)` of an empty vector (undefined behaviour)
    | t0 :: _ =>
      let (ts2, rhs2) := if 0 < t0.1 then (ts1, rhs) else (negLin ts1, -rhs)
      match (if o.eqResult then fixEqualityResult (boundsLin e ts2) rhs2 preBool else none) with
      | some p => .keep p (.clin 0 rhs2 ts2)
      | none =>
        match ts2 with
        | [(c, v)] =>
          let rhs3 := if c = 1 then rhs2 else rhs2 / c
          if o.eqBinVar && isBinaryVar e v then
            if rhs3 = 1 then .alias v
            else if rhs3 = 0 then
              -- `MakeComplementVar` raises unless the bounds are exactly 0..1
              if eq (e v).lb (fin 0) && eq (e v).ub (fin 1) then .redirect (.lin 1 [(-1, v)]) else .raise "complement"
            else .keep (preBool.narrow (fin 0) (fin 0)) (.clin 0 rhs3 [(1, v)])
          else .keep preBool (.clin 0 rhs3 [(1, v)])
        | _ => .keep preBool (.clin 0 rhs2 ts2)

/-- the same with the options at their defaults -/
def preproCondLinEQ (e : Env) (rhs : Rat) (ts : LinT) : Decision := preproCondLinEQO {} e rhs ts

/-- `PreprocessConstraint(CondQuadConEQ&)` -/
def preproCondQuadEQO (o : Opts) (e : Env) (rhs : Rat) (ts : LinT) (qs : QuadT) : Decision :=
  if ts.isEmpty && qs.isEmpty then
    let r := fin (b2r (cmpKind 0 0 rhs))
    .keep (({} : Pre).narrow r r) (.cquad 0 rhs ts qs)
  else
    match (if o.eqResult then fixEqualityResult (boundsQL e ts qs) rhs preBool else none) with
    | some p => .keep p (.cquad 0 rhs ts qs)
    | none => .keep preBool (.cquad 0 rhs ts qs)

def preproCondQuadEQ (e : Env) (rhs : Rat) (ts : LinT) (qs : QuadT) : Decision := preproCondQuadEQO {} e rhs ts qs

/-- rounding of the right-hand side of a conditional inequality with integer body -/
def roundRhs (kind : Int) (bodyInt : Bool) (rhs : Rat) : Rat :=
  if bodyInt && !ratIsInt rhs then
    (if kind = 1 then (rhs.ceil : Int) else if kind = -1 then (rhs.floor : Int)
     else if kind = 2 then (rhs.floor : Int) else (rhs.ceil : Int))
  else rhs

/-- `PreprocessConstraint(ConditionalConstraint<AlgebraicConstraint<LinTerms, AlgConRhs<kind>>>&)`, `kind ≠ 0` -/
def preproCondLinIneq (e : Env) (kind : Int) (rhs : Rat) (ts : LinT) : Decision :=
  if ts.isEmpty then
    let r := fin (b2r (cmpKind kind 0 rhs))
    .keep (({} : Pre).narrow r r) (.clin kind rhs ts)
  else
    let ts1 := sortLin ts
    match ts1 with
    | [] => .unsupported
    | t0 :: _ =>
      if 0 < t0.1 then
        .keep preBool (.clin kind (roundRhs kind (boundsLin e ts1).int rhs) ts1)
      else .redirect (.clin (-kind) (-rhs) (negLin ts1))

def preproCondQuadIneq (e : Env) (kind : Int) (rhs : Rat) (ts : LinT) (qs : QuadT) : Decision :=
  if ts.isEmpty && qs.isEmpty then
    let r := fin (b2r (cmpKind kind 0 rhs))
    .keep (({} : Pre).narrow r r) (.cquad kind rhs ts qs)
  else
    let ts1 := sortLin ts
    let qs1 := sortQuad qs
    let norm : Option Bool := match ts1, qs1 with
      | t0 :: _, _ => some (decide (0 < t0.1))
      | [], q0 :: _ => some (decide (0 < q0.1))
      | [], [] => none
    match norm with
    | none => .unsupported
    | some true => .keep preBool (.cquad kind (roundRhs kind (boundsQL e ts1 qs1).int rhs) ts1 qs1)
    | some false => .redirect (.cquad (-kind) (-rhs) (negLin ts1) (negQuad qs1))

/-- `count_fixed_01` -/
def countFixed01 (e : Env) (as : List Nat) : Nat × Nat :=
  ((as.filter fun x => le (e x).ub (fin 0)).length, (as.filter fun x => le (fin 1) (e x).lb).length)

/-- `PreprocessConstraint(AndConstraint&)` before `IntegrateNested` (which needs the converter state) -/
def preproAnd0 (e : Env) (as : List Nat) : Pre × List Nat :=
  let n01 := countFixed01 e as
  if n01.1 ≠ 0 then (preBool.narrow (fin 0) (fin 0), as)
  else if as.length = n01.2 then (preBool.narrow (fin 1) (fin 1), as)
  else if n01.2 ≠ 0 then (preBool, as.filter fun x => le (e x).lb (fin 0))
  else (preBool, as)

def preproOr0 (e : Env) (as : List Nat) : Pre × List Nat :=
  let n01 := countFixed01 e as
  if n01.2 ≠ 0 then (preBool.narrow (fin 1) (fin 1), as)
  else if as.length = n01.1 then (preBool.narrow (fin 0) (fin 0), as)
  else if n01.1 ≠ 0 then (preBool, as.filter fun x => le (fin 1) (e x).ub)
  else (preBool, as)

/-- `PreprocessConstraint(DivConstraint&)` -/
def preproDiv (e : Env) (a b : Nat) : Pre :=
  let l1 := (e a).lb; let u1 := (e a).ub; let l2 := (e b).lb; let u2 := (e b).ub
  if lt (fin (-practInf)) l1 && lt u1 (fin practInf) && lt (fin (-practInf)) l2 && lt u2 (fin practInf)
     && lt (fin 0) (mul l2 u2) then
    let qs := [div l1 l2, div l1 u2, div u1 l2, div u1 u2]
    let l0 := qs.foldl smin (fin dblMax)
    let u0 := qs.foldl smax (fin dblMin)
    ({} : Pre).narrow l0 u0
  else {}

/-- `PreprocessConstraint(IfThenConstraint&)` -/
def preproIfThen (e : Env) (t f : Nat) : Pre :=
  (({} : Pre).narrow (smin (e t).lb (e f).lb) (smax (e t).ub (e f).ub)).setType (commonType e [t, f])

/-- result ranges of the nonlinear functions (argument-independent) -/
def preproUn (f : UnFn) : Pre :=
  match f with
  | .exp => ({} : Pre).narrow (fin 0) pinf
  | .log => {}
  | .sin => ({} : Pre).narrow (fin (-1)) (fin 1)
  | .cos => ({} : Pre).narrow (fin (-1)) (fin 1)
  | .tan => {}
  | .asin => ({} : Pre).narrow (fin (-piLit / 2)) (fin piLit)
  | .acos => ({} : Pre).narrow (fin 0) (fin piLit)
  | .atan => ({} : Pre).narrow (fin (-piLit / 2)) (fin (piLit / 2))
  | .sinh => {}
  | .cosh => ({} : Pre).narrow (fin 1) pinf
  | .tanh => ({} : Pre).narrow (fin (-1)) (fin 1)
  | .asinh => {}
  | .acosh => ({} : Pre).narrow (fin 0) pinf
  | .atanh => {}

/-- `NarrowVarBounds` requested on the *argument* by log / logA -/
def argNarrowing (e : Env) : Con → Option (Nat × ER × ER)
  | .un .log a => if le (e a).lb (fin 0) then some (a, fin logLbLit, pinf) else none
  | .unp .loga a _ => some (a, fin 0, pinf)
  | _ => none

/-- the state-independent part of `PreprocessConstraint` for every constraint type -/
def prepro (e : Env) : Con → Decision
  | .lin c0 ts => let r := withConst (boundsLin e ts) c0
                  .keep ((({} : Pre).narrow r.lb r.ub).setType r.int) (.lin c0 ts)
  | .quad c0 ts qs => let r := withConst (boundsQL e ts qs) c0
                      .keep ((({} : Pre).narrow r.lb r.ub).setType r.int) (.quad c0 ts qs)
  | .pow a p => preproPow e a p
  | .min as => .keep ((({} : Pre).narrow (lbArray e as) (ubMinArray e as)).setType (commonType e as)) (.min as)
  | .max as => .keep ((({} : Pre).narrow (lbMaxArray e as) (ubArray e as)).setType (commonType e as)) (.max as)
  | .and as => let r := preproAnd0 e as; .keep r.1 (.and r.2)
  | .or as => let r := preproOr0 e as; .keep r.1 (.or r.2)
  | .alldiff as => .keep preBool (.alldiff as)
  | .count as => .keep ((({} : Pre).narrow (fin 0) (fin as.length)).setType true) (.count as)
  | .nvar as => .keep ((({} : Pre).narrow (fin 0) (fin ((as.length : Int) - 1))).setType true) (.nvar as)
  | .nconst k as => .keep ((({} : Pre).narrow (fin 0) (fin as.length)).setType true) (.nconst k as)
  | .abs a => preproAbs e a
  | .not a => .keep preBool (.not a)
  | .div a b => .keep (preproDiv e a b) (.div a b)
  | .ifthen c t f => .keep (preproIfThen e t f) (.ifthen c t f)
  | .impl c t f => .keep preBool (.impl c t f)
  | .clin kind rhs ts => if kind = 0 then preproCondLinEQ e rhs ts else preproCondLinIneq e kind rhs ts
  | .cquad kind rhs ts qs => if kind = 0 then preproCondQuadEQ e rhs ts qs else preproCondQuadIneq e kind rhs ts qs
  | .un f a => .keep (preproUn f) (.un f a)
  | .unp .expa a p => .keep (({} : Pre).narrow (fin 0) pinf) (.unp .expa a p)
  | .unp .loga a p => .keep {} (.unp .loga a p)

/-- `PreprocessConstraint` under given options (only the conditional equalities read them) -/
def preproO (o : Opts) (e : Env) (c : Con) : Decision :=
  match c with
  | .clin kind rhs ts => if kind = 0 then preproCondLinEQO o e rhs ts else preproCondLinIneq e kind rhs ts
  | .cquad kind rhs ts qs => if kind = 0 then preproCondQuadEQO o e rhs ts qs else preproCondQuadIneq e kind rhs ts qs
  | c => prepro e c

/-! ## converter state: variables, defining constraints, fixed-variable map -/

structure State where
  vars : Array VarB := #[]
  /-- init expression of each variable (`none`: original or plain fixed variable) -/
  defs : Array (Option Con) := #[]
  /-- `map_fixed_vars_` -/
  fixed : List (ER × Nat) := []
  opts : Opts := {}
  deriving Repr, Inhabited

/-- bounds/type lookup; an index outside the model (never produced by the driver, which rejects it) reads as a free variable -/
def State.env (s : State) : Env := fun i => s.vars.getD i { lb := ninf, ub := pinf, int := false }

def State.addVarRaw (s : State) (b : VarB) (d : Option Con) : State × Nat :=
  ({ s with vars := s.vars.push b, defs := s.defs.push d }, s.vars.size)

/-- `MakeFixedVar`: `std::unordered_map<double,int>` lookup uses `==` (a NaN key is never found) -/
def State.makeFixedVar (s : State) (c : ER) : State × Nat :=
  match s.fixed.find? (fun kv => eq kv.1 c) with
  | some kv => (s, kv.2)
  | none =>
    let (s', v) := s.addVarRaw { lb := c, ub := c, int := false } none
    ({ s' with fixed := (c, v) :: s'.fixed }, v)

/-- `AddVar(lb, ub, type)` -/
def State.addVar (s : State) (p : Pre) : State × Nat :=
  if eq p.lb p.ub then s.makeFixedVar p.lb          -- `lb != ub` is false
  else s.addVarRaw { lb := p.lb, ub := p.ub, int := p.int } none

/-- outcome of `AssignResult2Args` -/
inductive Res where
  | const (c : ER)
  | var (v : Nat)
  | throw (what : String)
  | unsupported
  deriving Repr, Inhabited, DecidableEq

/-- `NarrowVarBounds`; `none` = `MP_INFEAS("empty variable domain")` (bounds are already written) -/
def State.narrowVar (s : State) (v : Nat) (l u : ER) : State × Bool :=
  let b := s.env v
  let b' : VarB := { b with lb := smax b.lb l, ub := smin b.ub u }
  ({ s with vars := s.vars.setIfInBounds v b' }, lt b'.ub b'.lb)

/-- map lookup: an already stored, equal constraint -/
def State.mapFind (s : State) (c : Con) : Option Nat :=
  (List.range s.defs.size).find? fun i => s.defs.getD i none = some c

/-- `IntegrateNested` for And/Or: arguments defined by a constraint of the same type are replaced by its arguments -/
def State.integrateNested (s : State) (isAnd : Bool) (as : List Nat) : List Nat :=
  as.flatMap fun v =>
    match s.defs.getD v none, isAnd with
    | some (.and as2), true => as2
    | some (.or as2), false => as2
    | _, _ => [v]

/-- the tail of `BasicFCC::Convert()` once preprocessing is done -/
def State.finish (s : State) (pre : Pre) (con : Con) : State × Res :=
  if pre.isConstant then (s, .const pre.lb)
  else
    match s.mapFind con with
    | some v => (s, .var v)
    | none =>
      let (s1, v) := s.addVar pre
      -- AddConstraint: the constraint becomes the init expression of the result variable
      ({ s1 with defs := s1.defs.setIfInBounds v (some con) }, .var v)

/-- conversion of a constraint whose preprocessing never redirects (`keep`/`alias` only) -/
def State.assignBase (s : State) (c : Con) : State × Res :=
  match preproO s.opts s.env c with
  | .keep pre con' =>
    let con'' := match con' with
      | .and as => if pre.isConstant || !s.opts.unnest then con' else Con.and (s.integrateNested true as)
      | .or as => if pre.isConstant || !s.opts.unnest then con' else Con.or (s.integrateNested false as)
      | _ => con'
    s.finish pre con''
  | .alias v => (s, .var v)
  | _ => (s, .unsupported)

/-- `AssignResultVar2Args` -/
def State.resultVar (sr : State × Res) : State × Option Nat :=
  match sr.2 with
  | .const c => let (s', v) := sr.1.makeFixedVar c; (s', some v)
  | .var v => (sr.1, some v)
  | _ => (sr.1, none)

/-- `FlatConverter::AssignResult2Args` -/
def State.assign (s : State) (c : Con) : State × Res :=
  -- side effect on the argument (log, logA) happens inside PreprocessConstraint
  match argNarrowing s.env c with
  | some (v, l, u) =>
    let (s1, infeas) := s.narrowVar v l u
    if infeas then (s1, .throw "infeas") else s1.assignBase c
  | none =>
    match preproO s.opts s.env c with
    | .raise w => (s, .throw w)
    | .redirect c2 =>
      -- nested AssignResultVar2Args; then `set_result_var`; bounds 0..1 / defaults are not constant
      let r := State.resultVar (s.assignBase c2)
      (match r.2 with
       | some v => (r.1, .var v)
       | none => (r.1, .unsupported))
    | .unsupported => (s, .unsupported)
    | _ => s.assignBase c

/-! ## constr_prop_down.h: bounds handed down from a result to its arguments (compared with the real code only through the
end-to-end stage of checks/c06.py, not by the op-script correspondence) -/

/-- the bounds `constr_prop_down.h` hands to each *argument* of a logical constraint whose result is known to lie in
`[lb, ub]` (`PropagateResult(And/Or/Not/Implication/IfThen-condition)`) -/
def propDownArgs : Con → Rat → Rat → List (Nat × Rat × Rat)
  | .and as, lb, _ => as.map fun a => (a, lb, 1)
  | .or as, _, ub => as.map fun a => (a, 0, ub)
  | .not a, lb, ub => [(a, 1 - ub, 1 - lb)]
  | .impl c t f, _, _ => [(c, 0, 1), (t, 0, 1), (f, 0, 1)]
  | .ifthen c _ _, _, _ => [(c, 0, 1)]
  | _, _, _ => []

end MpVerif.C06

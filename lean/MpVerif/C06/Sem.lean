import MpVerif.C06.Model
/-!
# C06: semantics of the flat functional constraints over `Rat`, and the soundness predicates

`Con.eval` follows `include/mp/flat/constr_eval.h` (logical arguments are thresholded at 1/2).  Transcendental
functions are interpreted through a parameter `tr` (the theorems about algebraic constraints hold for every `tr`;
the ranges of the real functions are proved over ℝ in `LemmasReal.lean`).  Core Lean only.
-/
namespace MpVerif.C06
open ER

abbrev Val := Nat → Rat

def linVal (val : Val) (ts : LinT) : Rat := (ts.map fun t => t.1 * val t.2).sum
def quadVal (val : Val) (qs : QuadT) : Rat := (qs.map fun t => t.1 * (val t.2.1 * val t.2.2)).sum

def truthy (x : Rat) : Bool := decide ((1 : Rat) / 2 ≤ x)

def listMin : List Rat → Rat
  | [] => 0
  | [a] => a
  | a :: l => Min.min a (listMin l)
def listMax : List Rat → Rat
  | [] => 0
  | [a] => a
  | a :: l => Max.max a (listMax l)

/-- value of a functional constraint at a valuation -/
def Con.eval (tr : UnFn → Rat → Rat) (trp : UnPFn → Rat → Rat → Rat) (val : Val) : Con → Rat
  | .lin c0 ts => c0 + linVal val ts
  | .quad c0 ts qs => c0 + (linVal val ts + quadVal val qs)
  | .pow a p => if p.den = 1 then val a ^ p.num else 0     -- integer exponents only (see `LemmasReal` for the rest)
  | .min as => listMin (as.map val)
  | .max as => listMax (as.map val)
  | .and as => b2r (as.all fun v => truthy (val v))
  | .or as => b2r (as.any fun v => truthy (val v))
  | .alldiff as => b2r ((as.map val).Nodup)
  | .count as => ((as.filter fun v => truthy (val v)).length : Nat)
  | .nvar as => match as with
      | [] => 0
      | r :: l => ((l.filter fun v => val v = val r).length : Nat)
  | .nconst k as => ((as.filter fun v => val v = k).length : Nat)
  | .abs a => if 0 ≤ val a then val a else - val a
  | .not a => b2r (!truthy (val a))
  | .div a b => val a / val b
  | .ifthen c t f => if truthy (val c) then val t else val f
  | .impl c t f => b2r ((truthy (val c) && truthy (val t)) || (!truthy (val c) && truthy (val f)))
  | .clin kind rhs ts => b2r (cmpKind kind (linVal val ts) rhs)
  | .cquad kind rhs ts qs => b2r (cmpKind kind (linVal val ts + quadVal val qs) rhs)
  | .un f a => tr f (val a)
  | .unp f a p => trp f p (val a)

/-- a (final) lower bound holds -/
def lbOK : ER → Rat → Prop
  | ninf, _ => True
  | fin q, v => q ≤ v
  | pinf, _ => False
  | nan, _ => False
def ubOK : ER → Rat → Prop
  | pinf, _ => True
  | fin q, v => v ≤ q
  | ninf, _ => False
  | nan, _ => False
/-- an intermediate lower bound: NaN carries no information (it is dropped by `narrow_result_bounds`) -/
def lbW (b : ER) (v : Rat) : Prop := b = nan ∨ lbOK b v
def ubW (b : ER) (v : Rat) : Prop := b = nan ∨ ubOK b v

def IsInt (x : Rat) : Prop := ∃ z : Int, x = (z : Rat)

/-- the value lies in the domain of a variable -/
def InBox (b : VarB) (x : Rat) : Prop := lbOK b.lb x ∧ ubOK b.ub x ∧ (b.int = true → IsInt x)

/-- every variable takes a value of its domain -/
def Feasible (e : Env) (val : Val) : Prop := ∀ v, InBox (e v) (val v)

/-- the inferred bounds and type contain the value -/
def Pre.Contains (p : Pre) (x : Rat) : Prop := lbOK p.lb x ∧ ubOK p.ub x ∧ (p.int = true → IsInt x)

/-- intermediate (`ComputeBoundsAndType`) result, NaN-tolerant -/
def Pre.ContainsW (p : Pre) (x : Rat) : Prop := lbW p.lb x ∧ ubW p.ub x ∧ (p.int = true → IsInt x)


/-! ### converter-state predicates -/

/-- every defined variable equals the value of its defining constraint -/
def DefsHold (tr : UnFn → Rat → Rat) (trp : UnPFn → Rat → Rat → Rat) (s : State) (val : Val) : Prop :=
  ∀ i c, s.defs.getD i none = some c → val i = c.eval tr trp val

/-- `map_fixed_vars_` only holds variables fixed at their key -/
def FixedOK (s : State) : Prop := ∀ kv ∈ s.fixed, (s.env kv.2).lb = kv.1 ∧ (s.env kv.2).ub = kv.1

/-- one init-expression slot per variable -/
def State.WF (s : State) : Prop := s.defs.size = s.vars.size

end MpVerif.C06

import MpVerif.C06.Model
namespace MpVerif.C06
theorem C06_stub : True := trivial
end MpVerif.C06

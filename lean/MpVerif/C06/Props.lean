import MpVerif.C06.Lemmas
/-!
# C06 — property theorems

Property: whenever the converter introduces a variable for the value of an expression, the bounds it assigns contain
every value of the expression over the argument domains, INTEGER is declared only for integer-valued expressions,
and a constant / an existing variable replaces the expression only if it equals it on the whole domain.

All theorems are about the model in `Model.lean` (which is compared with the real code on every run) and are
quantified over **all** environments (`e : Env`, arbitrary bounds in −∞ | ℚ | +∞ | NaN and types), all valuations in
the boxes, all coefficient lists / parameters.  `tr`/`trp` interpret the transcendental functions and are arbitrary.
-/
namespace MpVerif.C06
open ER

variable (tr : UnFn → Rat → Rat) (trp : UnPFn → Rat → Rat → Rat)

/-- **Constant replacement** (`BasicFCC::Convert`: `if (ResultIsConstant()) return MakeConst(lb())`): whenever the
inferred bounds are sound and `lb == ub`, the expression equals that constant. -/
theorem C06_constant_sound (p : Pre) (x : Rat) (h : p.Contains x) (hc : p.isConstant = true) : p.lb = fin x := by
  obtain ⟨hl, hu, _⟩ := h
  cases hlb : p.lb <;> cases hub : p.ub <;> simp_all [Pre.isConstant, ER.eq, lbOK, ubOK]
  linarith

/-- **Linear expressions** (`PreprocessConstraint(LinearFunctionalConstraint&)` over `ComputeBoundsAndType`):
bounds and type are sound for every box and every coefficient list (zero coefficients, infinite bounds, NaN from
`0·∞` included). -/
theorem C06_lin (e : Env) (val : Val) (h : Feasible e val) (c0 : Rat) (ts : LinT) :
    ∃ pre, prepro e (.lin c0 ts) = .keep pre (.lin c0 ts) ∧ pre.Contains (Con.eval tr trp val (.lin c0 ts)) := by
  refine ⟨_, rfl, ?_⟩
  have := fresh_narrow_sound _ _ (withConst_sound _ _ c0 (boundsLin_sound e val h ts))
  simpa [Con.eval, add_comm] using this


/-! ## abs -/

/-- **abs, preprocessing level**: the alias `|x| = x` is taken only if `x ≥ 0` on the whole box, the redirection to
`−x` only if `x ≤ 0` on the whole box, and otherwise `[0, max(−lb, ub)]` with the argument's type is sound. -/
theorem C06_abs (e : Env) (val : Val) (h : Feasible e val) (a : Nat) :
    match preproAbs e a with
    | .alias v => val v = Con.eval tr trp val (.abs a)
    | .redirectGetVar c _ => Con.eval tr trp val c = Con.eval tr trp val (.abs a)
    | .keep pre c => c = .abs a ∧ pre.Contains (Con.eval tr trp val (.abs a))
    | _ => False := by
  obtain ⟨hl, hu, hi⟩ := h a
  unfold preproAbs
  by_cases h1 : le (fin 0) (e a).lb = true
  · simp only [h1, if_true]
    have : 0 ≤ val a := by
      cases hlb : (e a).lb <;> simp_all [le, ER.lt, ER.eq, lbOK]
      rcases h1 with h1 | h1 <;> linarith
    simp [Con.eval, this]
  · simp only [h1]
    by_cases h2 : le (e a).ub (fin 0) = true
    · simp only [h2, if_true]
      have hx : val a ≤ 0 := by
        cases hub : (e a).ub <;> simp_all [le, ER.lt, ER.eq, ubOK]
        rcases h2 with h2 | h2 <;> linarith
      by_cases h0 : 0 ≤ val a
      · have : val a = 0 := le_antisymm hx h0
        simp [Con.eval, linVal, this]
      · simp [Con.eval, linVal, h0]
    · simp only [h2]
      refine ⟨rfl, ?_, ?_, ?_⟩
      · refine narrow_lb ninf (fin 0) _ (by simp [lbOK]) (Or.inr ?_)
        simp only [Con.eval, lbOK]; split <;> linarith
      · refine narrow_ub pinf (smax (neg (e a).lb) (e a).ub) _ (by simp [ubOK]) (Or.inr ?_)
        cases hlb : (e a).lb <;> cases hub : (e a).ub <;>
          simp_all [smax, neg, ER.lt, ubOK, lbOK, Con.eval]
        next p q =>
          by_cases hpq : -p < q <;> simp [hpq, ubOK] <;> split <;> linarith
      · intro hint
        simp only [Pre.setType] at hint
        have := hi hint
        simp only [Con.eval]; split
        · exact this
        · exact this.neg

/-- **abs, conversion level (partial)**: when the conversion of `−x` yields a *variable*, that variable is returned.
The full statement — "`abs(x)` is replaced by an existing variable only if equal to it on the whole box" — is FALSE
for the code as it exists, see `C06_counterexample_abs_fixed_negative`:

  theorem C06_abs_assign (s) (a) (val) (h : s sound at val) :
      (s.assign (.abs a)).2 = .var v → val v = |val a|        -- fails when lb = ub < 0
-/
theorem C06_abs_assign_partial (s : State) (a v : Nat)
    (hneg : preproAbs s.env a = .redirectGetVar (.lin 0 [(-1, a)]) (.abs a))
    (hv : (s.assignBase (.lin 0 [(-1, a)])).2 = .var v) :
    (s.assign (.abs a)).2 = .var v := by
  simp only [State.assign, argNarrowing, prepro, hneg]
  revert hv
  cases hr : s.assignBase (.lin 0 [(-1, a)]) with
  | mk s1 r => intro hv; simp only at hv; subst hv; rfl

def cexAbsState : State :=
  { vars := #[{ lb := fin 7, ub := fin 9, int := false }, { lb := fin (-2), ub := fin (-2), int := false }],
    defs := #[none, none], fixed := [] }

/-- **Counterexample (open finding C06-abs-fixed-negative)**: `x0 ∈ [7,9]`, `x1` fixed at `−2`: `abs(x1)` is
"replaced" by `x0` (the constant `2.0` returned for `−x1` is read back as variable index 0), yet `|x1| = 2 ∉ [7,9]`. -/
theorem C06_counterexample_abs_fixed_negative :
    (cexAbsState.assign (.abs 1)).2 = .var 0 ∧
    ∀ val : Val, Feasible cexAbsState.env val → val 0 ≠ Con.eval tr trp val (.abs 1) := by
  refine ⟨by decide +kernel, ?_⟩
  intro val hf
  obtain ⟨h0l, _, _⟩ := hf 0
  obtain ⟨h1l, h1u, _⟩ := hf 1
  have e0 : (cexAbsState.env 0).lb = fin 7 := by decide +kernel
  have e1l : (cexAbsState.env 1).lb = fin (-2) := by decide +kernel
  have e1u : (cexAbsState.env 1).ub = fin (-2) := by decide +kernel
  rw [e0] at h0l; rw [e1l] at h1l; rw [e1u] at h1u
  simp only [lbOK, ubOK] at h0l h1l h1u
  have : val 1 = -2 := le_antisymm h1u h1l
  simp only [Con.eval, this]
  norm_num
  linarith

/-! ## 0/1-valued results, counting -/

theorem preBool_contains_b2r (b : Bool) : preBool.Contains (b2r b) := by
  cases b <;> simp [preBool, Pre.Contains, Pre.narrow, Pre.setType, smax, smin, ER.lt, lbOK, ubOK, b2r, IsInt.zero, IsInt.one]

/-- **not, implication, alldiff**: `[0,1]` INTEGER contains the truth value. -/
theorem C06_logical (e : Env) (val : Val) (c : Con)
    (hc : (∃ a, c = .not a) ∨ (∃ a b d, c = .impl a b d) ∨ (∃ as, c = .alldiff as)) :
    prepro e c = .keep preBool c ∧ preBool.Contains (Con.eval tr trp val c) := by
  rcases hc with ⟨a, rfl⟩ | ⟨a, b, d, rfl⟩ | ⟨as, rfl⟩ <;>
    exact ⟨rfl, by simpa [Con.eval] using preBool_contains_b2r _⟩

/-- **count / numberof(const)**: `[0, n]` INTEGER contains the count. -/
theorem C06_count (e : Env) (val : Val) (as : List Nat) (k : Rat) :
    (∃ pre, prepro e (.count as) = .keep pre (.count as) ∧ pre.Contains (Con.eval tr trp val (.count as))) ∧
    (∃ pre, prepro e (.nconst k as) = .keep pre (.nconst k as) ∧ pre.Contains (Con.eval tr trp val (.nconst k as))) := by
  have hle : ∀ (p : Nat → Bool), (((as.filter p).length : Nat) : Rat) ≤ (as.length : Rat) := fun p => by
    exact_mod_cast List.length_filter_le p as
  constructor
  · exact ⟨_, rfl, fresh_range_sound (fin 0) (fin as.length) true _ (Or.inr (by simp [lbOK, Con.eval]))
      (Or.inr (by simpa [ubOK, Con.eval] using hle _)) (fun _ => IsInt.natCast _)⟩
  · exact ⟨_, rfl, fresh_range_sound (fin 0) (fin as.length) true _ (Or.inr (by simp [lbOK, Con.eval]))
      (Or.inr (by simpa [ubOK, Con.eval] using hle _)) (fun _ => IsInt.natCast _)⟩

/-- **numberof(var)**: `[0, n−1]` (first argument is the reference) INTEGER contains the count. -/
theorem C06_nvar (e : Env) (val : Val) (r : Nat) (l : List Nat) :
    ∃ pre, prepro e (.nvar (r :: l)) = .keep pre (.nvar (r :: l)) ∧ pre.Contains (Con.eval tr trp val (.nvar (r :: l))) := by
  have h2 : (((l.filter (fun v => decide (val v = val r))).length : Nat) : Rat) ≤ (l.length : Rat) := by
    exact_mod_cast List.length_filter_le _ l
  refine ⟨_, rfl, fresh_range_sound (fin 0) (fin (((r :: l).length : Int) - 1)) true _
    (Or.inr (by simp [lbOK, Con.eval])) (Or.inr ?_) (fun _ => IsInt.natCast _)⟩
  simp only [ubOK, Con.eval, List.length_cons]
  push_cast
  linarith

end MpVerif.C06

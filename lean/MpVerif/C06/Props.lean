import MpVerif.C06.Lemmas
import MpVerif.C06.LemmasReal
import MpVerif.C06.LemmasPB
import MpVerif.Gen.C06Prepro
import Mathlib.Data.Rat.Floor
import Mathlib.Algebra.Order.Ring.Pow
/-!
# C06 — property theorems

Property: whenever the converter introduces a variable for the value of an expression, the bounds it assigns contain
every value of the expression over the argument domains, INTEGER is declared only for integer-valued expressions,
and a constant / an existing variable replaces the expression only if it equals it on the whole domain.

All theorems are about the model in `Model.lean` (which is compared with the real code on every run) and are
quantified over **all** environments (`e : Env`, arbitrary bounds in −∞ | ℚ | +∞ | NaN and types), all valuations in
the boxes, all coefficient lists / parameters.  `tr`/`trp` interpret the transcendental functions and are arbitrary.
-/
namespace MpVerif.C06
open ER

variable (tr : UnFn → Rat → Rat) (trp : UnPFn → Rat → Rat → Rat)

/-- **Constant replacement** (`BasicFCC::Convert`: `if (ResultIsConstant()) return MakeConst(lb())`): whenever the
inferred bounds are sound and `lb == ub`, the expression equals that constant. -/
theorem C06_constant_sound (p : Pre) (x : Rat) (h : p.Contains x) (hc : p.isConstant = true) : p.lb = fin x := by
  obtain ⟨hl, hu, _⟩ := h
  cases hlb : p.lb <;> cases hub : p.ub <;> simp_all [Pre.isConstant, ER.eq, lbOK, ubOK]
  linarith

/-- **Linear expressions** (`PreprocessConstraint(LinearFunctionalConstraint&)` over `ComputeBoundsAndType`):
bounds and type are sound for every box and every coefficient list (zero coefficients, infinite bounds, NaN from
`0·∞` included). -/
theorem C06_lin (e : Env) (val : Val) (h : Feasible e val) (c0 : Rat) (ts : LinT) :
    ∃ pre, prepro e (.lin c0 ts) = .keep pre (.lin c0 ts) ∧ pre.Contains (Con.eval tr trp val (.lin c0 ts)) := by
  refine ⟨_, rfl, ?_⟩
  have := fresh_narrow_sound _ _ (withConst_sound _ _ c0 (boundsLin_sound e val h ts))
  simpa [Con.eval, add_comm] using this


/-- **Quadratic expressions** (`ComputeBoundsAndType(QuadAndLinTerms)`, `ProductBounds` incl. the `x = y` square rule,
`AddBoundsAndType`): bounds and INTEGER type are sound for EVERY box — finite, half-infinite and infinite bounds (the corner
products `0·∞ = NaN` are skipped by `min_element`/`max_element` or make the whole bound NaN, which `narrow_result_bounds` drops) —
every coefficient list and every mix of types.  (Round 4: the restriction to finite boxes of the former `C06_quad_partial` is gone.) -/
theorem C06_quad (e : Env) (val : Val) (h : Feasible e val) (c0 : Rat) (ts : LinT) (qs : QuadT) :
    ∃ pre, prepro e (.quad c0 ts qs) = .keep pre (.quad c0 ts qs) ∧
      pre.Contains (Con.eval tr trp val (.quad c0 ts qs)) := by
  refine ⟨_, rfl, ?_⟩
  have hq := boundsQuadT_sound e val h (productBounds_sound_all e val h) qs
  have := fresh_narrow_sound _ _ (withConst_sound _ _ c0 (addBounds_sound _ _ _ _ (boundsLin_sound e val h ts) hq))
  simpa [Con.eval, boundsQL, add_comm] using this

/-- **`ProductBounds`** on every box: corner products for `x ≠ y` (16 finite/infinite shapes of the four bounds, NaN corners
included), `[0 or min(lb²,ub²), max(lb²,ub²)]` for `x = y`. -/
theorem C06_product_bounds (e : Env) (val : Val) (h : Feasible e val) (x y : Nat) :
    lbW (productBounds e x y).1 (val x * val y) ∧ ubW (productBounds e x y).2 (val x * val y) :=
  productBounds_sound_all e val h x y

/-! ## abs -/

/-- **abs, preprocessing level**: the alias `|x| = x` is taken only if `x ≥ 0` on the whole box, the redirection to
`−x` only if `x ≤ 0` on the whole box, and otherwise `[0, max(−lb, ub)]` with the argument's type is sound. -/
theorem C06_abs (e : Env) (val : Val) (h : Feasible e val) (a : Nat) :
    match preproAbs e a with
    | .alias v => val v = Con.eval tr trp val (.abs a)
    | .redirect c => c = .lin 0 [(-1, a)] ∧ Con.eval tr trp val c = Con.eval tr trp val (.abs a)
    | .keep pre c => c = .abs a ∧ pre.Contains (Con.eval tr trp val (.abs a))
    | _ => False := by
  obtain ⟨hl, hu, hi⟩ := h a
  unfold preproAbs
  by_cases h1 : le (fin 0) (e a).lb = true
  · simp only [h1, if_true]
    have : 0 ≤ val a := by
      cases hlb : (e a).lb <;> simp_all [le, ER.lt, ER.eq, lbOK]
      rcases h1 with h1 | h1 <;> linarith
    simp [Con.eval, this]
  · simp only [h1]
    by_cases h2 : le (e a).ub (fin 0) = true
    · simp only [h2, if_true]
      have hx : val a ≤ 0 := by
        cases hub : (e a).ub <;> simp_all [le, ER.lt, ER.eq, ubOK]
        rcases h2 with h2 | h2 <;> linarith
      refine ⟨rfl, ?_⟩
      by_cases h0 : 0 ≤ val a
      · have : val a = 0 := le_antisymm hx h0
        simp [Con.eval, linVal, this]
      · simp [Con.eval, linVal, h0]
    · simp only [h2]
      refine ⟨rfl, ?_, ?_, ?_⟩
      · refine narrow_lb ninf (fin 0) _ (by simp [lbOK]) (Or.inr ?_)
        simp only [Con.eval, lbOK]; split <;> linarith
      · refine narrow_ub pinf (smax (neg (e a).lb) (e a).ub) _ (by simp [ubOK]) (Or.inr ?_)
        cases hlb : (e a).lb <;> cases hub : (e a).ub <;>
          simp_all [smax, neg, ER.lt, ubOK, lbOK, Con.eval]
        next p q =>
          by_cases hpq : -p < q <;> simp [hpq, ubOK] <;> split <;> linarith
      · intro hint
        simp only [Pre.setType] at hint
        have := hi hint
        simp only [Con.eval]; split
        · exact this
        · exact this.neg

/-! ## the tail of `BasicFCC::Convert` and `AssignResultVar2Args`, on the converter state -/

/-- **`Convert()` after preprocessing** (constant / map lookup / new result variable): if the inferred `pre` contains
the value `x` of the (possibly rewritten) constraint `con`, then a returned constant equals `x`, and a returned
variable — found through the map or newly created — has value `x` in every valuation satisfying the definitions of
the resulting state. -/
theorem C06_finish_sound (s : State) (pre : Pre) (con : Con) (val : Val) (x : Rat) (hwf : s.WF)
    (hx : pre.Contains x) (hcon : con.eval tr trp val = x) :
    (∀ c, (s.finish pre con).2 = .const c → c = fin x) ∧
    (∀ v, (s.finish pre con).2 = .var v → DefsHold tr trp (s.finish pre con).1 val → val v = x) := by
  unfold State.finish
  by_cases hc : pre.isConstant = true
  · simp only [hc, if_true]
    refine ⟨fun c h => ?_, fun v h => by simp at h⟩
    injection h with h; rw [← h]; exact C06_constant_sound pre x hx hc
  · simp only [hc]
    cases hm : s.mapFind con with
    | some v =>
      refine ⟨fun c h => by simp at h, fun v' h hd => ?_⟩
      simp only at h; injection h with h; subst h
      have := List.find?_some hm
      simp only [decide_eq_true_eq] at this
      rw [hd v con this, hcon]
    | none =>
      have hne : eq pre.lb pre.ub = false := by simpa [Pre.isConstant] using hc
      refine ⟨fun c h => by simp [State.addVar, hne, State.addVarRaw] at h, fun v h hd => ?_⟩
      simp only [State.addVar, hne, State.addVarRaw] at h hd
      simp only [Bool.false_eq_true, if_false] at h hd
      injection h with h; subst h
      have : ((s.defs.push none).setIfInBounds s.vars.size (some con)).getD s.vars.size none = some con := by
        rw [← hwf]; simp [Array.getD]
      rw [hd _ con this, hcon]

/-- **`AssignResultVar2Args`**: a constant outcome is turned into a variable fixed at it (reused from
`map_fixed_vars_` or new); the returned variable has the value `x` in every valuation feasible for the new state. -/
theorem C06_resultVar_sound (s : State) (r : Res) (val : Val) (x : Rat) (hfix : ∀ c, r = .const c → FixedOK s)
    (hc : ∀ c, r = .const c → c = fin x) (hv : ∀ v, r = .var v → val v = x) (v : Nat)
    (hf : Feasible (State.resultVar (s, r)).1.env val) (hr : (State.resultVar (s, r)).2 = some v) : val v = x := by
  cases r with
  | var v' => simp only [State.resultVar] at hr; injection hr with hr; subst hr; exact hv _ rfl
  | throw w => simp [State.resultVar] at hr
  | unsupported => simp [State.resultVar] at hr
  | const c =>
    have hcx := hc c rfl
    subst hcx
    simp only [State.resultVar, State.makeFixedVar] at hr hf
    cases hfind : s.fixed.find? (fun kv => eq kv.1 (fin x)) with
    | some kv =>
      simp only [hfind] at hr hf
      injection hr with hr; subst hr
      have hmem := List.mem_of_find?_eq_some hfind
      have hk := List.find?_some hfind
      obtain ⟨h1, h2⟩ := hfix _ rfl kv hmem
      obtain ⟨hl, hu, _⟩ := hf kv.2
      have hkx : kv.1 = fin x := by
        cases hk1 : kv.1 <;> simp_all [ER.eq]
      rw [h1, hkx] at hl; rw [h2, hkx] at hu
      exact le_antisymm hu hl
    | none =>
      simp only [hfind, State.addVarRaw] at hr hf
      injection hr with hr; subst hr
      obtain ⟨hl, hu, _⟩ := hf s.vars.size
      simp only [State.env, Array.getD] at hl hu
      simp at hl hu
      simp only [lbOK, ubOK] at hl hu
      exact le_antisymm hu hl

/-- **abs, conversion level, full strength** (after the fix 15ae342 in ampl/mp): whatever `AssignResult2Args(abs(x))`
returns — the argument itself, the (possibly constant, hence fixed) variable for `−x`, a variable found through the map,
or a new result variable — has the value `|x|` in every valuation that is feasible for the state before and after the
call and satisfies the definitions of the resulting state.  No hypothesis on the argument's box: the fixed-negative
case that failed before the fix (`C06_counterexample_abs_fixed_negative`, removed) is covered. -/
theorem C06_abs_assign (s : State) (a : Nat) (val : Val) (hwf : s.WF) (hfix : FixedOK s)
    (hf0 : Feasible s.env val) (hf : Feasible (s.assign (.abs a)).1.env val)
    (hd : DefsHold tr trp (s.assign (.abs a)).1 val) :
    (∀ c, (s.assign (.abs a)).2 = .const c → c = fin (Con.eval tr trp val (.abs a))) ∧
    (∀ v, (s.assign (.abs a)).2 = .var v → val v = Con.eval tr trp val (.abs a)) := by
  have habs := C06_abs tr trp s.env val hf0 a
  have hassign : s.assign (.abs a) =
      (match preproAbs s.env a with
       | .raise w => (s, Res.throw w)
       | .redirect c2 =>
         (match (State.resultVar (s.assignBase c2)).2 with
          | some v => ((State.resultVar (s.assignBase c2)).1, Res.var v)
          | none => ((State.resultVar (s.assignBase c2)).1, Res.unsupported))
       | .unsupported => (s, .unsupported)
       | _ => s.assignBase (.abs a)) := by
    simp only [State.assign, argNarrowing, preproO, prepro]
    rfl
  rw [hassign] at hf hd ⊢
  cases hp : preproAbs s.env a with
  | «alias» v' =>
    rw [hp] at habs hf hd
    simp only at habs hf hd ⊢
    simp only [State.assignBase, preproO, prepro, hp] at hf hd ⊢
    exact ⟨fun c h => by simp at h, fun v h => by injection h with h; subst h; exact habs⟩
  | keep pre c =>
    rw [hp] at habs hf hd
    simp only at habs hf hd ⊢
    obtain ⟨rfl, hcont⟩ := habs
    simp only [State.assignBase, preproO, prepro, hp] at hf hd ⊢
    obtain ⟨h1, h2⟩ := C06_finish_sound tr trp s pre (.abs a) val _ hwf hcont rfl
    exact ⟨h1, fun v h => h2 v h hd⟩
  | redirect c2 =>
    rw [hp] at habs hf hd
    simp only at habs hf hd ⊢
    obtain ⟨rfl, heq⟩ := habs
    -- conversion of −x
    obtain ⟨pre, hpre, hcont⟩ := C06_lin tr trp s.env val hf0 0 [(-1, a)]
    have hbase : s.assignBase (.lin 0 [(-1, a)]) = s.finish pre (.lin 0 [(-1, a)]) := by
      simp only [State.assignBase, preproO, hpre]
    rw [hbase] at hf hd ⊢
    obtain ⟨h1, h2⟩ := C06_finish_sound tr trp s pre (.lin 0 [(-1, a)]) val _ hwf hcont rfl
    cases hrv : (State.resultVar (s.finish pre (.lin 0 [(-1, a)]))).2 with
    | none => simp only [hrv]; exact ⟨fun c h => by simp at h, fun v h => by simp at h⟩
    | some v' =>
      simp only [hrv] at hf hd ⊢
      refine ⟨fun c h => by simp at h, fun v h => ?_⟩
      injection h with h; subst h
      rw [← heq]
      have hvar : ∀ v, (s.finish pre (.lin 0 [(-1, a)])).2 = .var v →
          val v = Con.eval tr trp val (.lin 0 [(-1, a)]) := by
        intro v h
        apply h2 v h
        have : (State.resultVar (s.finish pre (.lin 0 [(-1, a)]))).1 = (s.finish pre (.lin 0 [(-1, a)])).1 := by
          simp [State.resultVar, h]
        rw [← this]; exact hd
      have hst : ∀ c, (s.finish pre (.lin 0 [(-1, a)])).2 = .const c → FixedOK (s.finish pre (.lin 0 [(-1, a)])).1 := by
        intro c h
        have : (s.finish pre (.lin 0 [(-1, a)])).1 = s := by
          unfold State.finish at h ⊢
          by_cases hc : pre.isConstant = true
          · simp [hc]
          · simp only [hc] at h ⊢
            cases hm : s.mapFind (.lin 0 [(-1, a)]) <;> simp [hm] at h
        rw [this]; exact hfix
      exact C06_resultVar_sound (s.finish pre (.lin 0 [(-1, a)])).1 (s.finish pre (.lin 0 [(-1, a)])).2 val _ hst h1 hvar v' hf hrv
  | unsupported => rw [hp] at habs; exact habs.elim
  | raise w => rw [hp] at habs; exact habs.elim

/-! ## 0/1-valued results, counting -/

theorem preBool_contains_b2r (b : Bool) : preBool.Contains (b2r b) := by
  cases b <;> simp [preBool, Pre.Contains, Pre.narrow, Pre.setType, smax, smin, ER.lt, lbOK, ubOK, b2r, IsInt.zero, IsInt.one]

/-- **not, implication, alldiff**: `[0,1]` INTEGER contains the truth value. -/
theorem C06_logical (e : Env) (val : Val) (c : Con)
    (hc : (∃ a, c = .not a) ∨ (∃ a b d, c = .impl a b d) ∨ (∃ as, c = .alldiff as)) :
    prepro e c = .keep preBool c ∧ preBool.Contains (Con.eval tr trp val c) := by
  rcases hc with ⟨a, rfl⟩ | ⟨a, b, d, rfl⟩ | ⟨as, rfl⟩ <;>
    exact ⟨rfl, by simpa [Con.eval] using preBool_contains_b2r _⟩

/-- **count / numberof(const)**: `[0, n]` INTEGER contains the count. -/
theorem C06_count (e : Env) (val : Val) (as : List Nat) (k : Rat) :
    (∃ pre, prepro e (.count as) = .keep pre (.count as) ∧ pre.Contains (Con.eval tr trp val (.count as))) ∧
    (∃ pre, prepro e (.nconst k as) = .keep pre (.nconst k as) ∧ pre.Contains (Con.eval tr trp val (.nconst k as))) := by
  have hle : ∀ (p : Nat → Bool), (((as.filter p).length : Nat) : Rat) ≤ (as.length : Rat) := fun p => by
    exact_mod_cast List.length_filter_le p as
  constructor
  · exact ⟨_, rfl, fresh_range_sound (fin 0) (fin as.length) true _ (Or.inr (by simp [lbOK, Con.eval]))
      (Or.inr (by simpa [ubOK, Con.eval] using hle _)) (fun _ => IsInt.natCast _)⟩
  · exact ⟨_, rfl, fresh_range_sound (fin 0) (fin as.length) true _ (Or.inr (by simp [lbOK, Con.eval]))
      (Or.inr (by simpa [ubOK, Con.eval] using hle _)) (fun _ => IsInt.natCast _)⟩

/-- **numberof(var)**: `[0, n−1]` (first argument is the reference) INTEGER contains the count. -/
theorem C06_nvar (e : Env) (val : Val) (r : Nat) (l : List Nat) :
    ∃ pre, prepro e (.nvar (r :: l)) = .keep pre (.nvar (r :: l)) ∧ pre.Contains (Con.eval tr trp val (.nvar (r :: l))) := by
  have h2 : (((l.filter (fun v => decide (val v = val r))).length : Nat) : Rat) ≤ (l.length : Rat) := by
    exact_mod_cast List.length_filter_le _ l
  refine ⟨_, rfl, fresh_range_sound (fin 0) (fin (((r :: l).length : Int) - 1)) true _
    (Or.inr (by simp [lbOK, Con.eval])) (Or.inr ?_) (fun _ => IsInt.natCast _)⟩
  simp only [ubOK, Con.eval, List.length_cons]
  push_cast
  linarith


/-! ## if-then-else -/

theorem smin_lb_left (a b : ER) (x : Rat) (ha : lbOK a x) (hb : b ≠ nan) : lbOK (smin a b) x := by
  cases a <;> cases b <;> simp_all [smin, ER.lt, lbOK]
  next p q => by_cases h : q < p <;> simp [h, lbOK] <;> linarith
theorem smin_lb_right (a b : ER) (x : Rat) (hb : lbOK b x) (ha : a ≠ nan) : lbOK (smin a b) x := by
  cases a <;> cases b <;> simp_all [smin, ER.lt, lbOK]
  next p q => by_cases h : q < p <;> simp [h, lbOK] <;> linarith
theorem smax_ub_left (a b : ER) (x : Rat) (ha : ubOK a x) (hb : b ≠ nan) : ubOK (smax a b) x := by
  cases a <;> cases b <;> simp_all [smax, ER.lt, ubOK]
  next p q => by_cases h : p < q <;> simp [h, ubOK] <;> linarith
theorem smax_ub_right (a b : ER) (x : Rat) (hb : ubOK b x) (ha : a ≠ nan) : ubOK (smax a b) x := by
  cases a <;> cases b <;> simp_all [smax, ER.lt, ubOK]
  next p q => by_cases h : p < q <;> simp [h, ubOK] <;> linarith
theorem ne_nan_of_lbOK {b : ER} {x : Rat} (h : lbOK b x) : b ≠ nan := by cases b <;> simp_all [lbOK]
theorem ne_nan_of_ubOK {b : ER} {x : Rat} (h : ubOK b x) : b ≠ nan := by cases b <;> simp_all [ubOK]

theorem isInt_of_commonType (e : Env) (val : Val) (h : Feasible e val) (vs : List Nat) (hc : commonType e vs = true) :
    ∀ v ∈ vs, IsInt (val v) := by
  intro v hv
  have := (List.all_eq_true.mp hc) v hv
  obtain ⟨hl, hu, hi⟩ := h v
  rcases Bool.or_eq_true _ _ ▸ this with h1 | h1
  · exact hi h1
  · rw [Bool.and_eq_true] at h1
    obtain ⟨hf, hint⟩ := h1
    cases hlb : (e v).lb with
    | fin p =>
      cases hub : (e v).ub with
      | fin q =>
        simp only [isFixed, hlb, hub, ER.eq, decide_eq_true_eq] at hf
        simp only [hlb, isInteger, ER.floor, ER.ceil, ER.eq, decide_eq_true_eq] at hint
        rw [hlb] at hl; rw [hub] at hu
        simp only [lbOK, ubOK] at hl hu
        subst hf
        have hx : val v = p := le_antisymm hu hl
        rw [hx]
        refine ⟨p.floor, ?_⟩
        have h1 : ((p.floor : Int) : Rat) ≤ p := Rat.floor_le p
        have h2 : p ≤ ((p.ceil : Int) : Rat) := Rat.le_ceil
        have h3 : ((p.floor : Int) : Rat) = ((p.ceil : Int) : Rat) := hint
        linarith
      | ninf => simp [isFixed, hlb, hub, ER.eq] at hf
      | pinf => simp [isFixed, hlb, hub, ER.eq] at hf
      | nan => simp [isFixed, hlb, hub, ER.eq] at hf
    | ninf =>
      cases hub : (e v).ub <;> simp [isFixed, hlb, hub, ER.eq] at hf
      rw [hub] at hu; simp [ubOK] at hu
    | pinf => rw [hlb] at hl; simp [lbOK] at hl
    | nan => rw [hlb] at hl; simp [lbOK] at hl

/-- **if-then-else**: `[min(lb₁,lb₂), max(ub₁,ub₂)]` with the common type of the two branches contains the value,
whatever the condition. -/
theorem C06_ifthen (e : Env) (val : Val) (h : Feasible e val) (c t f : Nat) :
    ∃ pre, prepro e (.ifthen c t f) = .keep pre (.ifthen c t f) ∧ pre.Contains (Con.eval tr trp val (.ifthen c t f)) := by
  obtain ⟨tl, tu, _⟩ := h t
  obtain ⟨fl, fu, _⟩ := h f
  refine ⟨_, rfl, ?_⟩
  simp only [preproIfThen, Con.eval]
  by_cases hc : truthy (val c) = true
  · simp only [hc, if_true]
    refine fresh_range_sound _ _ _ _ (Or.inr (smin_lb_left _ _ _ tl (ne_nan_of_lbOK fl)))
      (Or.inr (smax_ub_left _ _ _ tu (ne_nan_of_ubOK fu))) (fun hi => ?_)
    exact isInt_of_commonType e val h [t, f] hi t (by simp)
  · simp only [hc]
    refine fresh_range_sound _ _ _ _ (Or.inr (smin_lb_right _ _ _ fl (ne_nan_of_lbOK tl)))
      (Or.inr (smax_ub_right _ _ _ fu (ne_nan_of_ubOK tu))) (fun hi => ?_)
    exact isInt_of_commonType e val h [t, f] hi f (by simp)

/-! ## conditional (in)equalities -/

theorem pre00 : (preBool.narrow (fin 0) (fin 0)).Contains (b2r false) ∧ (preBool.narrow (fin 0) (fin 0)).isConstant = true := by
  refine ⟨?_, by decide +kernel⟩
  simp [Pre.Contains, preBool, Pre.narrow, Pre.setType, smax, smin, ER.lt, lbOK, ubOK, b2r, IsInt.zero]
theorem pre11 : (preBool.narrow (fin 1) (fin 1)).Contains (b2r true) ∧ (preBool.narrow (fin 1) (fin 1)).isConstant = true := by
  refine ⟨?_, by decide +kernel⟩
  simp [Pre.Contains, preBool, Pre.narrow, Pre.setType, smax, smin, ER.lt, lbOK, ubOK, b2r, IsInt.one]

/-- **`FixEqualityResult`**: whenever it fixes the result of `body == rhs` to 0 or 1 from the body's bounds and type
(any sound, NaN-tolerant bounds: linear or quadratic body), the comparison has that truth value on the whole box. -/
theorem C06_fix_equality (b : Pre) (body rhs : Rat) (hb : b.ContainsW body) (p : Pre)
    (hfix : fixEqualityResult b rhs preBool = some p) :
    p.Contains (b2r (cmpKind 0 body rhs)) ∧ p.isConstant = true := by
  obtain ⟨hl, hu, hi⟩ := hb
  unfold fixEqualityResult at hfix
  have hne_of_lt : (lt (fin rhs) b.lb = true ∨ lt b.ub (fin rhs) = true) → body ≠ rhs := by
    rintro (h1 | h1) heq
    · cases hlb : b.lb <;> simp_all [ER.lt, lbW, lbOK]; linarith
    · cases hub : b.ub <;> simp_all [ER.lt, ubW, ubOK]; linarith
  split at hfix
  · next h1 =>
    rw [Bool.or_eq_true] at h1
    have hne := hne_of_lt h1
    injection hfix with hp; subst hp
    have : cmpKind 0 body rhs = false := by simp [cmpKind, hne]
    rw [this]; exact pre00
  · split at hfix
    · next h2 =>
      rw [Bool.and_eq_true] at h2
      have heq : body = rhs := by
        obtain ⟨h2a, h2b⟩ := h2
        cases hlb : b.lb <;> cases hub : b.ub <;> simp_all [ER.eq, lbW, lbOK, ubW, ubOK]
        linarith
      injection hfix with hp; subst hp
      have : cmpKind 0 body rhs = true := by simp [cmpKind, heq]
      rw [this]; exact pre11
    · split at hfix
      · next h3 =>
        rw [Bool.and_eq_true] at h3
        have hne : body ≠ rhs := by
          intro heq
          have := hi h3.1
          rw [heq] at this
          obtain ⟨z, hz⟩ := this
          have : ratIsInt rhs = true := by
            rw [hz]; simp [ratIsInt]
          simp [this] at h3
        injection hfix with hp; subst hp
        have : cmpKind 0 body rhs = false := by simp [cmpKind, hne]
        rw [this]; exact pre00
      · simp at hfix


/-- **Conditional quadratic / linear equality fixed from bounds**: `FixEqualityResult` applied to the real body bounds. -/
theorem C06_cond_eq_fix (e : Env) (val : Val) (h : Feasible e val) (rhs : Rat) (ts : LinT) (p : Pre)
    (hfix : fixEqualityResult (boundsLin e ts) rhs preBool = some p) :
    p.Contains (Con.eval tr trp val (.clin 0 rhs ts)) ∧ p.isConstant = true := by
  simpa [Con.eval] using C06_fix_equality (boundsLin e ts) (linVal val ts) rhs (boundsLin_sound e val h ts) p hfix

/-- **rounding of the right-hand side** of a conditional inequality whose body is integer-valued (`ceil` for `>=`/`<`,
`floor` for `<=`/`>`): the comparison is unchanged at every integer body value — for every fractional or integer `rhs`. -/
theorem C06_round_rhs (kind : Int) (hk : kind = -2 ∨ kind = -1 ∨ kind = 1 ∨ kind = 2) (bodyInt : Bool) (body rhs : Rat)
    (hb : bodyInt = true → IsInt body) :
    cmpKind kind body (roundRhs kind bodyInt rhs) = cmpKind kind body rhs := by
  unfold roundRhs
  split
  · next hcond =>
    rw [Bool.and_eq_true] at hcond
    obtain ⟨z, rfl⟩ := hb hcond.1
    rcases hk with rfl | rfl | rfl | rfl <;> simp only [cmpKind] <;> norm_num
    · exact Rat.lt_ceil_iff
    · exact Rat.le_floor_iff
    · exact Rat.ceil_le_iff
    · exact Rat.floor_lt_iff
  · rfl

/-! ## log / logA: narrowing of the *argument* -/

/-- **logA**: the argument is narrowed to `[0, ∞)`; no point where the logarithm is defined (`x > 0`) is lost. -/
theorem C06_loga_arg (e : Env) (a : Nat) (p x : Rat) (hx : 0 < x) :
    ∃ l u, argNarrowing e (.unp .loga a p) = some (a, l, u) ∧ lbOK l x ∧ ubOK u x :=
  ⟨fin 0, pinf, rfl, le_of_lt hx, trivial⟩

/-- **log (partial)**: the argument's lower bound is raised to the double `1e-6` when `lb ≤ 0`; points `x ≥ 1e-6` are kept.
The full statement (every `x > 0` is kept) is FALSE: see `C06_counterexample_log_arg`.

  theorem C06_log_arg (e a x) (hx : 0 < x) : argNarrowing e (.un .log a) = some (a, l, u) → lbOK l x
-/
theorem C06_log_arg_partial (e : Env) (a : Nat) (x : Rat) (hx : logLbLit ≤ x) :
    argNarrowing e (.un .log a) = none ∨
    ∃ l u, argNarrowing e (.un .log a) = some (a, l, u) ∧ lbOK l x ∧ ubOK u x := by
  by_cases h : le (e a).lb (fin 0) = true
  · right; exact ⟨fin logLbLit, pinf, by simp [argNarrowing, h], hx, trivial⟩
  · left; simp [argNarrowing, h]

/-- **Counterexample (open finding C06-log-arg-lb)**: `x ∈ [0, 1]`, `log(x)`: the point `x = 2⁻³⁰ > 0` lies in the box and in
the domain of `log`, but outside the narrowed bounds. -/
theorem C06_counterexample_log_arg :
    let e : Env := fun _ => { lb := fin 0, ub := fin 1, int := false }
    let x : Rat := 1 / 2 ^ 30
    InBox (e 0) x ∧ 0 < x ∧ ∃ l u, argNarrowing e (.un .log 0) = some (0, l, u) ∧ ¬ lbOK l x := by
  refine ⟨⟨by simp [lbOK], by simp [ubOK]; norm_num, by simp⟩, by positivity,
    fin logLbLit, pinf, by decide +kernel, ?_⟩
  simp only [lbOK, logLbLit]; norm_num

/-! ## transcendental ranges (over ℝ) -/

/-- **exp, sin, cos, cosh, tanh, acos (lower), asin (upper)**: the ranges the code assigns (`[0,∞)`, `[−1,1]`, `[−1,1]`,
`[1,∞)`, `[−1,1]`, `0 ≤`, `≤ Pi()`) hold for the real functions at every real argument. -/
theorem C06_transcendental_ranges (x : ℝ) :
    (0 ≤ Real.exp x) ∧ (-1 ≤ Real.sin x ∧ Real.sin x ≤ 1) ∧ (-1 ≤ Real.cos x ∧ Real.cos x ≤ 1) ∧ (1 ≤ Real.cosh x) ∧
    (-1 ≤ Real.tanh x ∧ Real.tanh x ≤ 1) ∧ (0 ≤ Real.arccos x) ∧ (Real.arcsin x ≤ ((piLit : ℚ) : ℝ)) :=
  real_ranges x

/-- **asin / acos / atan after the fix e4c42dd** (`Pi()` = the double nearest to π).
(1) `Pi()` really is the nearest double: `0 < π − Pi() < 2⁻⁵²` (half the spacing of doubles in `[2,4)`).
(2) For the *double-rounded* values: for every monotone rounding `rn` with `rn 0 = 0` that sends `π/2, −π/2, π` to
`Pi()/2, −Pi()/2, Pi()` — which is what round-to-nearest does by (1) — the assigned bounds hold at every real `x`:
`−Pi()/2 ≤ rn(asin x) ≤ Pi()`, `0 ≤ rn(acos x) ≤ Pi()`, `−Pi()/2 ≤ rn(atan x) ≤ Pi()/2`.
What is NOT proved: that libm's `asin/acos/atan` are correctly rounded (they are not guaranteed to be); the actual
libm values are only checked by the sampling oracle (incl. `x = ±1`, `±2⁶⁰`), where they coincide with the bounds. -/
theorem C06_pi_rounded_ranges :
    (0 < Real.pi - ((piLit : ℚ) : ℝ) ∧ Real.pi - ((piLit : ℚ) : ℝ) < 1 / 2 ^ 52) ∧
    ∀ (rn : ℝ → ℝ), Monotone rn → rn 0 = 0 → rn (Real.pi / 2) = ((piLit : ℚ) : ℝ) / 2 →
      rn (-(Real.pi / 2)) = -((piLit : ℚ) : ℝ) / 2 → rn Real.pi = ((piLit : ℚ) : ℝ) → ∀ x : ℝ,
      (-((piLit : ℚ) : ℝ) / 2 ≤ rn (Real.arcsin x) ∧ rn (Real.arcsin x) ≤ ((piLit : ℚ) : ℝ)) ∧
      (0 ≤ rn (Real.arccos x) ∧ rn (Real.arccos x) ≤ ((piLit : ℚ) : ℝ)) ∧
      (-((piLit : ℚ) : ℝ) / 2 ≤ rn (Real.arctan x) ∧ rn (Real.arctan x) ≤ ((piLit : ℚ) : ℝ) / 2) :=
  ⟨piLit_nearest, fun rn hm h0 h1 h2 h3 x => rounded_ranges rn hm h0 h1 h2 h3 x⟩

/-- Without rounding the three bounds are missed by less than `2⁻⁵²` (any double constant is ≠ π): the exact real values
`asin(−1) = −π/2`, `acos(−1) = π`, `atan(x)` for large `|x|` lie outside `[−Pi()/2, …]`, `[…, Pi()]`, `[−Pi()/2, Pi()/2]`.
This is why (2) above is stated for rounded values; it is not a defect of the code. -/
theorem C06_pi_exact_reals_outside :
    (Real.arcsin (-1) < -((piLit : ℚ) : ℝ) / 2) ∧ (((piLit : ℚ) : ℝ) < Real.arccos (-1)) ∧
    (∃ x : ℝ, ((piLit : ℚ) : ℝ) / 2 < Real.arctan x) ∧ (∃ x : ℝ, Real.arctan x < -((piLit : ℚ) : ℝ) / 2) :=
  real_pi_literal_cuts

/-- the model's constants for these functions are exactly those ranges -/
theorem C06_transcendental_model_constants :
    preproUn .exp = ({} : Pre).narrow (fin 0) pinf ∧ preproUn .sin = ({} : Pre).narrow (fin (-1)) (fin 1) ∧
    preproUn .cos = ({} : Pre).narrow (fin (-1)) (fin 1) ∧ preproUn .cosh = ({} : Pre).narrow (fin 1) pinf ∧
    preproUn .tanh = ({} : Pre).narrow (fin (-1)) (fin 1) ∧ preproUn .acos = ({} : Pre).narrow (fin 0) (fin piLit) ∧
    preproUn .asin = ({} : Pre).narrow (fin (-piLit / 2)) (fin piLit) ∧
    preproUn .atan = ({} : Pre).narrow (fin (-piLit / 2)) (fin (piLit / 2)) ∧
    preproUn .tan = {} ∧ preproUn .sinh = {} ∧ preproUn .asinh = {} ∧ preproUn .atanh = {} ∧ preproUn .log = {} :=
  ⟨rfl, rfl, rfl, rfl, rfl, rfl, rfl, rfl, rfl, rfl, rfl, rfl, rfl⟩

/-! ## min / max -/

theorem smin_ne_nan {a b : ER} (ha : a ≠ nan) (hb : b ≠ nan) : smin a b ≠ nan := by
  unfold smin; split <;> assumption
theorem smax_ne_nan {a b : ER} (ha : a ≠ nan) (hb : b ≠ nan) : smax a b ≠ nan := by
  unfold smax; split <;> assumption
theorem smin_cases (a b : ER) : smin a b = a ∨ smin a b = b := by unfold smin; split <;> simp
theorem smax_cases (a b : ER) : smax a b = a ∨ smax a b = b := by unfold smax; split <;> simp

theorem smax_lb_left (a b : ER) (x : Rat) (ha : lbOK a x) (hb : lbW b x) : lbOK (smax a b) x := narrow_lb a b x ha hb
theorem smin_ub_left (a b : ER) (x : Rat) (ha : ubOK a x) (hb : ubW b x) : ubOK (smin a b) x := narrow_ub a b x ha hb

theorem foldl_smin (bs : List ER) (hbs : ∀ b ∈ bs, b ≠ nan) :
    ∀ acc, acc ≠ nan →
      bs.foldl smin acc ≠ nan ∧ (∀ x, lbOK acc x → lbOK (bs.foldl smin acc) x) ∧
      (∀ b ∈ bs, ∀ x, lbOK b x → lbOK (bs.foldl smin acc) x) ∧ (bs.foldl smin acc = acc ∨ bs.foldl smin acc ∈ bs) := by
  induction bs with
  | nil => intro acc ha; exact ⟨ha, fun _ h => h, by simp, Or.inl rfl⟩
  | cons b bs ih =>
    intro acc ha
    have hb : b ≠ nan := hbs b (by simp)
    obtain ⟨h1, h2, h3, h4⟩ := ih (fun c hc => hbs c (by simp [hc])) (smin acc b) (smin_ne_nan ha hb)
    simp only [List.foldl_cons]
    refine ⟨h1, fun x hx => h2 x (smin_lb_left _ _ _ hx hb), ?_, ?_⟩
    · intro c hc x hx
      rcases List.mem_cons.mp hc with rfl | hc
      · exact h2 x (smin_lb_right _ _ _ hx ha)
      · exact h3 c hc x hx
    · rcases h4 with h4 | h4
      · rcases smin_cases acc b with h5 | h5
        · left; rw [h4, h5]
        · right; rw [h4, h5]; simp
      · right; exact List.mem_cons_of_mem _ h4

theorem foldl_smax (bs : List ER) (hbs : ∀ b ∈ bs, b ≠ nan) :
    ∀ acc, acc ≠ nan →
      bs.foldl smax acc ≠ nan ∧ (∀ x, ubOK acc x → ubOK (bs.foldl smax acc) x) ∧
      (∀ b ∈ bs, ∀ x, ubOK b x → ubOK (bs.foldl smax acc) x) ∧ (bs.foldl smax acc = acc ∨ bs.foldl smax acc ∈ bs) := by
  induction bs with
  | nil => intro acc ha; exact ⟨ha, fun _ h => h, by simp, Or.inl rfl⟩
  | cons b bs ih =>
    intro acc ha
    have hb : b ≠ nan := hbs b (by simp)
    obtain ⟨h1, h2, h3, h4⟩ := ih (fun c hc => hbs c (by simp [hc])) (smax acc b) (smax_ne_nan ha hb)
    simp only [List.foldl_cons]
    refine ⟨h1, fun x hx => h2 x (smax_ub_left _ _ _ hx hb), ?_, ?_⟩
    · intro c hc x hx
      rcases List.mem_cons.mp hc with rfl | hc
      · exact h2 x (smax_ub_right _ _ _ hx ha)
      · exact h3 c hc x hx
    · rcases h4 with h4 | h4
      · rcases smax_cases acc b with h5 | h5
        · left; rw [h4, h5]
        · right; rw [h4, h5]; simp
      · right; exact List.mem_cons_of_mem _ h4

theorem listMin_mem_le : ∀ (l : List Rat), l ≠ [] → listMin l ∈ l ∧ ∀ y ∈ l, listMin l ≤ y
  | [], h => absurd rfl h
  | [a], _ => by simp [listMin]
  | a :: b :: l, _ => by
    obtain ⟨hm, hl⟩ := listMin_mem_le (b :: l) (by simp)
    have hdef : listMin (a :: b :: l) = min a (listMin (b :: l)) := rfl
    rw [hdef]
    constructor
    · rcases min_choice a (listMin (b :: l)) with h | h <;> rw [h]
      · simp
      · exact List.mem_cons_of_mem _ hm
    · intro y hy
      rcases List.mem_cons.mp hy with rfl | hy
      · exact min_le_left _ _
      · exact le_trans (min_le_right _ _) (hl y hy)

theorem listMax_mem_le : ∀ (l : List Rat), l ≠ [] → listMax l ∈ l ∧ ∀ y ∈ l, y ≤ listMax l
  | [], h => absurd rfl h
  | [a], _ => by simp [listMax]
  | a :: b :: l, _ => by
    obtain ⟨hm, hl⟩ := listMax_mem_le (b :: l) (by simp)
    have hdef : listMax (a :: b :: l) = max a (listMax (b :: l)) := rfl
    rw [hdef]
    constructor
    · rcases max_choice a (listMax (b :: l)) with h | h <;> rw [h]
      · simp
      · exact List.mem_cons_of_mem _ hm
    · intro y hy
      rcases List.mem_cons.mp hy with rfl | hy
      · exact le_max_left _ _
      · exact le_trans (hl y hy) (le_max_right _ _)

theorem ubOK_mono {b : ER} {x y : Rat} (h : ubOK b x) (hxy : y ≤ x) : ubOK b y := by
  cases b <;> simp_all [ubOK]; linarith
theorem lbOK_mono {b : ER} {x y : Rat} (h : lbOK b x) (hxy : x ≤ y) : lbOK b y := by
  cases b <;> simp_all [lbOK]; linarith


/-- **min**: `[min lbᵢ, min ubᵢ]` with the common type contains `min xᵢ` (non-empty argument list). -/
theorem C06_min (e : Env) (val : Val) (h : Feasible e val) (as : List Nat) (hne : as ≠ []) :
    ∃ pre, prepro e (.min as) = .keep pre (.min as) ∧ pre.Contains (Con.eval tr trp val (.min as)) := by
  refine ⟨_, rfl, ?_⟩
  have hne' : as.map val ≠ [] := by simpa using hne
  obtain ⟨hmem, hle⟩ := listMin_mem_le (as.map val) hne'
  obtain ⟨v0, hv0, hv0e⟩ := List.mem_map.mp hmem
  have hlbs : ∀ b ∈ as.map (fun v => (e v).lb), b ≠ nan := by
    intro b hb; obtain ⟨v, _, rfl⟩ := List.mem_map.mp hb; exact ne_nan_of_lbOK (h v).1
  have hubs : ∀ b ∈ as.map (fun v => (e v).ub), b ≠ nan := by
    intro b hb; obtain ⟨v, _, rfl⟩ := List.mem_map.mp hb; exact ne_nan_of_ubOK (h v).2.1
  have e1 : lbArray e as = (as.map (fun v => (e v).lb)).foldl smin pinf := by simp [lbArray, List.foldl_map]
  have e2 : ubMinArray e as = (as.map (fun v => (e v).ub)).foldl smin pinf := by simp [ubMinArray, List.foldl_map]
  obtain ⟨_, _, l3, _⟩ := foldl_smin _ hlbs pinf (by simp)
  obtain ⟨_, _, _, u4⟩ := foldl_smin _ hubs pinf (by simp)
  simp only [Con.eval]
  refine fresh_range_sound _ _ _ _ (Or.inr ?_) (Or.inr ?_) ?_
  · rw [e1, ← hv0e]
    exact l3 _ (List.mem_map.mpr ⟨v0, hv0, rfl⟩) _ (h v0).1
  · rw [e2]
    rcases u4 with u4 | u4
    · rw [u4]; simp [ubOK]
    · obtain ⟨v, hv, hvb⟩ := List.mem_map.mp u4
      rw [← hvb]
      exact ubOK_mono (h v).2.1 (hle _ (List.mem_map.mpr ⟨v, hv, rfl⟩))
  · intro hi
    rw [← hv0e]
    exact isInt_of_commonType e val h as hi v0 hv0

/-- **max**: `[max lbᵢ, max ubᵢ]` with the common type contains `max xᵢ` (non-empty argument list). -/
theorem C06_max (e : Env) (val : Val) (h : Feasible e val) (as : List Nat) (hne : as ≠ []) :
    ∃ pre, prepro e (.max as) = .keep pre (.max as) ∧ pre.Contains (Con.eval tr trp val (.max as)) := by
  refine ⟨_, rfl, ?_⟩
  have hne' : as.map val ≠ [] := by simpa using hne
  obtain ⟨hmem, hle⟩ := listMax_mem_le (as.map val) hne'
  obtain ⟨v0, hv0, hv0e⟩ := List.mem_map.mp hmem
  have hlbs : ∀ b ∈ as.map (fun v => (e v).lb), b ≠ nan := by
    intro b hb; obtain ⟨v, _, rfl⟩ := List.mem_map.mp hb; exact ne_nan_of_lbOK (h v).1
  have hubs : ∀ b ∈ as.map (fun v => (e v).ub), b ≠ nan := by
    intro b hb; obtain ⟨v, _, rfl⟩ := List.mem_map.mp hb; exact ne_nan_of_ubOK (h v).2.1
  have e1 : lbMaxArray e as = (as.map (fun v => (e v).lb)).foldl smax ninf := by simp [lbMaxArray, List.foldl_map]
  have e2 : ubArray e as = (as.map (fun v => (e v).ub)).foldl smax ninf := by simp [ubArray, List.foldl_map]
  obtain ⟨_, _, u3, _⟩ := foldl_smax _ hubs ninf (by simp)
  obtain ⟨_, _, _, l4⟩ := foldl_smax _ hlbs ninf (by simp)
  simp only [Con.eval]
  refine fresh_range_sound _ _ _ _ (Or.inr ?_) (Or.inr ?_) ?_
  · rw [e1]
    rcases l4 with l4 | l4
    · rw [l4]; simp [lbOK]
    · obtain ⟨v, hv, hvb⟩ := List.mem_map.mp l4
      rw [← hvb]
      exact lbOK_mono (h v).1 (hle _ (List.mem_map.mpr ⟨v, hv, rfl⟩))
  · rw [e2, ← hv0e]
    exact u3 _ (List.mem_map.mpr ⟨v0, hv0, rfl⟩) _ (h v0).2.1
  · intro hi
    rw [← hv0e]
    exact isInt_of_commonType e val h as hi v0 hv0

/-! ## and / or: fixed-argument elimination -/

theorem val_le_zero_of_ub {b : ER} {x : Rat} (h : le b (fin 0) = true) (hu : ubOK b x) : x ≤ 0 := by
  cases b with
  | fin q => rw [le_fin] at h; simp only [ubOK] at hu; have := of_decide_eq_true h; linarith
  | ninf => simp [ubOK] at hu
  | pinf => simp [le, ER.lt, ER.eq] at h
  | nan => simp [ubOK] at hu
theorem one_le_val_of_lb {b : ER} {x : Rat} (h : le (fin 1) b = true) (hl : lbOK b x) : 1 ≤ x := by
  cases b with
  | fin q => rw [le_fin] at h; simp only [lbOK] at hl; have := of_decide_eq_true h; linarith
  | pinf => simp [lbOK] at hl
  | ninf => simp [le, ER.lt, ER.eq] at h
  | nan => simp [lbOK] at hl
theorem val_pos_of_not_lb {b : ER} {x : Rat} (h : ¬ le b (fin 0) = true) (hl : lbOK b x) : 0 < x := by
  cases b with
  | fin q => rw [le_fin] at h; simp only [lbOK] at hl; have : ¬ q ≤ 0 := fun hq => h (decide_eq_true hq); linarith [not_le.mp this]
  | pinf => simp [lbOK] at hl
  | ninf => simp [le, ER.lt, ER.eq] at h
  | nan => simp [lbOK] at hl
theorem val_lt_one_of_not_ub {b : ER} {x : Rat} (h : ¬ le (fin 1) b = true) (hu : ubOK b x) : x < 1 := by
  cases b with
  | fin q => rw [le_fin] at h; simp only [ubOK] at hu; have : ¬ 1 ≤ q := fun hq => h (decide_eq_true hq); linarith [not_le.mp this]
  | ninf => simp [ubOK] at hu
  | pinf => simp [le, ER.lt, ER.eq] at h
  | nan => simp [ubOK] at hu

/-- a binary variable (`is_binary_var`) takes the value 0 or 1 -/
theorem binary_val (e : Env) (val : Val) (h : Feasible e val) (v : Nat) (hb : isBinaryVar e v = true) :
    val v = 0 ∨ val v = 1 := by
  obtain ⟨hl, hu, hi⟩ := h v
  simp only [isBinaryVar, isFixed, Bool.or_eq_true, Bool.and_eq_true] at hb
  cases hlb : (e v).lb with
  | fin p =>
    cases hub : (e v).ub with
    | fin q =>
      rw [hlb] at hl hb; rw [hub] at hu hb
      simp only [ER.eq, decide_eq_true_eq, lbOK, ubOK] at hb hl hu
      rcases hb with ⟨⟨h0, h1⟩, hint⟩ | ⟨hf, h01⟩
      · obtain ⟨z, hz⟩ := hi hint
        rw [hz] at hl hu ⊢
        have a0 : (0 : Int) ≤ z := by exact_mod_cast (by linarith : (0 : Rat) ≤ z)
        have a1 : z ≤ (1 : Int) := by exact_mod_cast (by linarith : (z : Rat) ≤ 1)
        rcases (by omega : z = 0 ∨ z = 1) with rfl | rfl <;> simp
      · have : val v = p := le_antisymm (by linarith) hl
        rcases h01 with h01 | h01
        · left; linarith
        · right; linarith
    | ninf => rw [hub] at hu; simp [ubOK] at hu
    | nan => rw [hub] at hu; simp [ubOK] at hu
    | pinf => rw [hlb, hub] at hb; simp [ER.eq] at hb
  | ninf => rw [hlb] at hb; simp [ER.eq] at hb
  | pinf => rw [hlb] at hl; simp [lbOK] at hl
  | nan => rw [hlb] at hl; simp [lbOK] at hl

theorem all_filter_of_imp {α} (l : List α) (p q : α → Bool) (h : ∀ x ∈ l, q x = false → p x = true) :
    l.all p = (l.filter q).all p := by
  induction l with
  | nil => rfl
  | cons a l ih =>
    have ih' := ih (fun x hx => h x (List.mem_cons_of_mem _ hx))
    by_cases hq : q a = true
    · simp [List.filter_cons, hq, ih']
    · have hq' : q a = false := by simpa using hq
      have := h a (by simp) hq'
      simp [List.filter_cons, hq', this, ih']

theorem any_filter_of_imp {α} (l : List α) (p q : α → Bool) (h : ∀ x ∈ l, q x = false → p x = false) :
    l.any p = (l.filter q).any p := by
  induction l with
  | nil => rfl
  | cons a l ih =>
    have ih' := ih (fun x hx => h x (List.mem_cons_of_mem _ hx))
    by_cases hq : q a = true
    · simp [List.filter_cons, hq, ih']
    · have hq' : q a = false := by simpa using hq
      have := h a (by simp) hq'
      simp [List.filter_cons, hq', this, ih']


/-- **and**: result fixed at 0 if some argument is fixed at 0, at 1 if all are fixed at 1; arguments fixed at 1 are
dropped; in every case the bounds `[0,1]`/INTEGER (or the fixed value) contain the truth value and the rewritten
constraint has the same value — for binary arguments (the C++ asserts `is_binary_var`). -/
theorem C06_and (e : Env) (val : Val) (h : Feasible e val) (as : List Nat)
    (hbin : ∀ v ∈ as, isBinaryVar e v = true) :
    (preproAnd0 e as).1.Contains (Con.eval tr trp val (.and as)) ∧
    Con.eval tr trp val (.and (preproAnd0 e as).2) = Con.eval tr trp val (.and as) := by
  unfold preproAnd0
  simp only []
  have e1 : (countFixed01 e as).1 = (as.filter fun x => le (e x).ub (fin 0)).length := rfl
  have e2 : (countFixed01 e as).2 = (as.filter fun x => le (fin 1) (e x).lb).length := rfl
  by_cases h1 : (countFixed01 e as).1 ≠ 0
  · rw [if_pos h1]
    rw [e1] at h1
    refine ⟨?_, rfl⟩
    obtain ⟨x, hx⟩ := List.exists_mem_of_length_pos (Nat.pos_of_ne_zero h1)
    rw [List.mem_filter] at hx
    have hx0 : val x ≤ 0 := val_le_zero_of_ub hx.2 (h x).2.1
    have : (as.all fun v => truthy (val v)) = false := by
      rw [List.all_eq_false]; exact ⟨x, hx.1, by simp [truthy]; linarith⟩
    simp only [Con.eval, this]; exact pre00.1
  · rw [if_neg h1]
    by_cases h2 : as.length = (countFixed01 e as).2
    · rw [if_pos h2]
      rw [e2] at h2
      refine ⟨?_, rfl⟩
      have hall : ∀ x ∈ as, le (fin 1) (e x).lb = true := by
        have := (List.length_filter_eq_length_iff).mp h2.symm
        simpa using this
      have : (as.all fun v => truthy (val v)) = true := by
        rw [List.all_eq_true]; intro x hx
        have := one_le_val_of_lb (hall x hx) (h x).1
        simp [truthy]; linarith
      simp only [Con.eval, this]; exact pre11.1
    · rw [if_neg h2]
      by_cases h3 : (countFixed01 e as).2 ≠ 0
      · rw [if_pos h3]
        constructor
        · simpa [Con.eval] using preBool_contains_b2r _
        · simp only [Con.eval]
          congr 1
          symm
          apply all_filter_of_imp
          intro x hx hq
          have hq' : ¬ le (e x).lb (fin 0) = true := by simpa using hq
          have hpos := val_pos_of_not_lb hq' (h x).1
          rcases binary_val e val h x (hbin x hx) with h0 | h0
          · linarith
          · simp [truthy, h0]; norm_num
      · rw [if_neg h3]
        exact ⟨by simpa [Con.eval] using preBool_contains_b2r _, rfl⟩

/-- **or**: dual of `C06_and`. -/
theorem C06_or (e : Env) (val : Val) (h : Feasible e val) (as : List Nat)
    (hbin : ∀ v ∈ as, isBinaryVar e v = true) :
    (preproOr0 e as).1.Contains (Con.eval tr trp val (.or as)) ∧
    Con.eval tr trp val (.or (preproOr0 e as).2) = Con.eval tr trp val (.or as) := by
  unfold preproOr0
  simp only []
  have e1 : (countFixed01 e as).1 = (as.filter fun x => le (e x).ub (fin 0)).length := rfl
  have e2 : (countFixed01 e as).2 = (as.filter fun x => le (fin 1) (e x).lb).length := rfl
  by_cases h1 : (countFixed01 e as).2 ≠ 0
  · rw [if_pos h1]
    rw [e2] at h1
    refine ⟨?_, rfl⟩
    obtain ⟨x, hx⟩ := List.exists_mem_of_length_pos (Nat.pos_of_ne_zero h1)
    rw [List.mem_filter] at hx
    have hx1 : 1 ≤ val x := one_le_val_of_lb hx.2 (h x).1
    have : (as.any fun v => truthy (val v)) = true := by
      rw [List.any_eq_true]; exact ⟨x, hx.1, by simp [truthy]; linarith⟩
    simp only [Con.eval, this]; exact pre11.1
  · rw [if_neg h1]
    by_cases h2 : as.length = (countFixed01 e as).1
    · rw [if_pos h2]
      rw [e1] at h2
      refine ⟨?_, rfl⟩
      have hall : ∀ x ∈ as, le (e x).ub (fin 0) = true := by
        have := (List.length_filter_eq_length_iff).mp h2.symm
        simpa using this
      have : (as.any fun v => truthy (val v)) = false := by
        rw [List.any_eq_false]; intro x hx
        have := val_le_zero_of_ub (hall x hx) (h x).2.1
        simp [truthy]; linarith
      simp only [Con.eval, this]; exact pre00.1
    · rw [if_neg h2]
      by_cases h3 : (countFixed01 e as).1 ≠ 0
      · rw [if_pos h3]
        constructor
        · simpa [Con.eval] using preBool_contains_b2r _
        · simp only [Con.eval]
          congr 1
          symm
          apply any_filter_of_imp
          intro x hx hq
          have hq' : ¬ le (fin 1) (e x).ub = true := by simpa using hq
          have hlt := val_lt_one_of_not_ub hq' (h x).2.1
          rcases binary_val e val h x (hbin x hx) with h0 | h0
          · simp [truthy, h0]
          · linarith
      · rw [if_neg h3]
        exact ⟨by simpa [Con.eval] using preBool_contains_b2r _, rfl⟩

/-! ## division -/

theorem fin_of_lb_gt {b : ER} {x q : Rat} (h : lbOK b x) (hc : lt (fin q) b = true) : ∃ p, b = fin p := by
  cases b with
  | fin p => exact ⟨p, rfl⟩
  | ninf => simp [ER.lt] at hc
  | pinf => simp [lbOK] at h
  | nan => simp [lbOK] at h
theorem fin_of_ub_lt {b : ER} {x q : Rat} (h : ubOK b x) (hc : lt b (fin q) = true) : ∃ p, b = fin p := by
  cases b with
  | fin p => exact ⟨p, rfl⟩
  | pinf => simp [ER.lt] at hc
  | ninf => simp [ubOK] at h
  | nan => simp [ubOK] at h

theorem foldl_smin_eq_minElem (a : ER) (l : List ER) : l.foldl smin a = minElem a l := rfl
theorem foldl_smax_eq_maxElem (a : ER) (l : List ER) : l.foldl smax a = maxElem a l := rfl

theorem default_contains (x : Rat) : ({} : Pre).Contains x := ⟨trivial, trivial, fun h => by simp at h⟩


/-- **division**: when all four bounds are finite (within ±1e20) and the divisor's box excludes 0 (`l2·u2 > 0`) the result
is bounded by the four corner quotients (and by the `DBL_MAX` / `DBL_MIN` seeds of the C++ loop); otherwise nothing
is narrowed.  Sound at every point of the boxes; in the narrowing branch the divisor is nonzero (`C06_div_guard`), in the other the
default bounds contain every value, so the statement never depends on Lean's totalised `x / 0 = 0`. -/
theorem C06_div (e : Env) (val : Val) (h : Feasible e val) (a b : Nat) :
    (preproDiv e a b).Contains (Con.eval tr trp val (.div a b)) := by
  obtain ⟨hxl, hxu, _⟩ := h a
  obtain ⟨hyl, hyu, _⟩ := h b
  unfold preproDiv
  simp only []
  split
  · next hcond =>
    simp only [Bool.and_eq_true] at hcond
    obtain ⟨⟨⟨⟨c1, c2⟩, c3⟩, c4⟩, c5⟩ := hcond
    obtain ⟨a1, ha1⟩ := fin_of_lb_gt hxl c1
    obtain ⟨b1, hb1⟩ := fin_of_ub_lt hxu c2
    obtain ⟨c, hc⟩ := fin_of_lb_gt hyl c3
    obtain ⟨d, hd⟩ := fin_of_ub_lt hyu c4
    rw [ha1] at hxl; rw [hb1] at hxu; rw [hc] at hyl c5; rw [hd] at hyu c5
    simp only [lbOK, ubOK] at hxl hxu hyl hyu
    simp only [mul, ER.lt, decide_eq_true_eq] at c5
    have hc0 : c ≠ 0 := fun h0 => by rw [h0] at c5; simp at c5
    have hd0 : d ≠ 0 := fun h0 => by rw [h0] at c5; simp at c5
    simp only [ha1, hb1, hc, hd, ER.div, hc0, hd0, if_false, foldl_smin_eq_minElem, foldl_smax_eq_maxElem]
    obtain ⟨m, hm, _, hml⟩ := minElem_fin dblMax [a1 / c, a1 / d, b1 / c, b1 / d]
    obtain ⟨M, hM, _, hMl⟩ := maxElem_fin dblMin [a1 / c, a1 / d, b1 / c, b1 / d]
    simp only [List.map_cons, List.map_nil] at hm hM
    rw [hm, hM]
    -- 1/y lies between 1/d and 1/c
    have hrec : 1 / d ≤ 1 / val b ∧ 1 / val b ≤ 1 / c := by
      rcases pos_and_pos_or_neg_and_neg_of_mul_pos c5 with ⟨hcp, hdp⟩ | ⟨hcn, hdn⟩
      · have hy : 0 < val b := lt_of_lt_of_le hcp hyl
        exact ⟨one_div_le_one_div_of_le hy hyu, one_div_le_one_div_of_le hcp hyl⟩
      · have hy : val b < 0 := lt_of_le_of_lt hyu hdn
        exact ⟨(one_div_le_one_div_of_neg hdn hy).mpr hyu, (one_div_le_one_div_of_neg hy hcn).mpr hyl⟩
    have hval : Con.eval tr trp val (.div a b) = val a * (1 / val b) := by
      show val a / val b = _
      exact div_eq_mul_one_div _ _
    rw [hval]
    have q1 : a1 / c = a1 * (1 / c) := div_eq_mul_one_div _ _
    have q2 : a1 / d = a1 * (1 / d) := div_eq_mul_one_div _ _
    have q3 : b1 / c = b1 * (1 / c) := div_eq_mul_one_div _ _
    have q4 : b1 / d = b1 * (1 / d) := div_eq_mul_one_div _ _
    refine fresh_range_sound' _ _ _ (Or.inr ?_) (Or.inr ?_)
    · simp only [lbOK]
      exact corner_le_mul hxl hxu hrec.1 hrec.2 m (q2 ▸ hml _ (by simp)) (q1 ▸ hml _ (by simp))
        (q4 ▸ hml _ (by simp)) (q3 ▸ hml _ (by simp))
    · simp only [ubOK]
      exact mul_le_corner hxl hxu hrec.1 hrec.2 M (q2 ▸ hMl _ (by simp)) (q1 ▸ hMl _ (by simp))
        (q4 ▸ hMl _ (by simp)) (q3 ▸ hMl _ (by simp))
  · exact default_contains _

/-! ## power -/

theorem powi_nat (b : ER) (k : Nat) (hk : 1 ≤ k) :
    powi b (k : Int) = match b with
      | fin q => fin (q ^ k)
      | pinf => pinf
      | ninf => if k % 2 = 0 then pinf else ninf
      | nan => nan := by
  have hk0 : k ≠ 0 := by omega
  have hnn : ¬ ((k : Int) < 0) := by omega
  cases b with
  | fin q => simp [powi, hnn, zpow_natCast]
  | pinf => simp [powi, hk0]
  | ninf =>
    have : ((k : Int) % 2 = 0) ↔ (k % 2 = 0) := by omega
    simp [powi, hk0, this]
  | nan => rfl

theorem powi_ne_nan (b : ER) (k : Nat) (hk : 1 ≤ k) (hb : b ≠ nan) : powi b (k : Int) ≠ nan := by
  rw [powi_nat b k hk]
  cases b with
  | fin q => simp
  | pinf => simp
  | ninf => by_cases h : k % 2 = 0 <;> simp [h]
  | nan => exact absurd rfl hb

theorem IsInt.pow {x : Rat} (hx : IsInt x) (k : Nat) : IsInt (x ^ k) := by
  obtain ⟨z, rfl⟩ := hx; exact ⟨z ^ k, by simp⟩

/-- a lower and an upper bound, in either order, give `[smin, smax]` -/
theorem order_pair (a b : ER) (v : Rat) (ha : lbOK a v) (hb : ubOK b v) :
    lbOK (smin a b) v ∧ ubOK (smax a b) v ∧ lbOK (smin b a) v ∧ ubOK (smax b a) v := by
  cases a <;> cases b <;> simp_all [smin, smax, ER.lt, lbOK, ubOK]
  next p q =>
    have hpq : p ≤ q := le_trans ha hb
    have h1 : ¬ q < p := not_lt.mpr hpq
    refine ⟨by simp [h1, lbOK]; exact ha, ?_, ?_, by simp [h1, ubOK]; exact hb⟩
    · by_cases h : p < q <;> simp [h, ubOK]
      · exact hb
      · linarith [not_lt.mp h]
    · by_cases h : p < q <;> simp [h, lbOK]
      · exact ha
      · linarith [not_lt.mp h]

theorem pow_odd_lb (b : ER) (x : Rat) (k : Nat) (hk : 1 ≤ k) (ho : Odd k) (h : lbOK b x) : lbOK (powi b k) (x ^ k) := by
  rw [powi_nat b k hk]
  have hm : ¬ k % 2 = 0 := by rcases ho with ⟨m, rfl⟩; omega
  cases b <;> simp_all [lbOK]
  exact (Odd.pow_le_pow ho).mpr h
theorem pow_odd_ub (b : ER) (x : Rat) (k : Nat) (hk : 1 ≤ k) (ho : Odd k) (h : ubOK b x) : ubOK (powi b k) (x ^ k) := by
  rw [powi_nat b k hk]
  cases b <;> simp_all [ubOK]
  exact (Odd.pow_le_pow ho).mpr h
theorem pow_nonneg_ub (b : ER) (x : Rat) (k : Nat) (hk : 1 ≤ k) (h0 : 0 ≤ x) (h : ubOK b x) : ubOK (powi b k) (x ^ k) := by
  rw [powi_nat b k hk]
  cases b <;> simp_all [ubOK]
  exact pow_le_pow_left₀ h0 h k
theorem pow_even_nonpos_ub (b : ER) (x : Rat) (k : Nat) (hk : 1 ≤ k) (he : Even k) (h0 : x ≤ 0) (h : lbOK b x) :
    ubOK (powi b k) (x ^ k) := by
  rw [powi_nat b k hk]
  have hm : k % 2 = 0 := by rcases he with ⟨m, rfl⟩; omega
  cases b <;> simp_all [ubOK, lbOK]
  next q =>
    have := pow_le_pow_left₀ (by linarith : (0 : Rat) ≤ -x) (by linarith : -x ≤ -q) k
    rwa [Even.neg_pow he, Even.neg_pow he] at this

theorem even_iff_ratIsInt_half (k : Nat) : ratIsInt ((k : Rat) / 2) = true ↔ Even k := by
  constructor
  · intro h
    obtain ⟨z, hz⟩ := isInt_of_ratIsInt h
    have h2 : (k : Rat) = 2 * z := by linarith
    have h3 : (k : Int) = 2 * z := by exact_mod_cast h2
    exact ⟨z.toNat, by omega⟩
  · rintro ⟨m, rfl⟩
    have : ((m + m : Nat) : Rat) / 2 = (m : Rat) := by push_cast; ring
    rw [this]; simp [ratIsInt]


/-- **power with an integer exponent `k ≥ 2`** (`PreprocessConstraint(PowConstraint&)`): odd `k` — monotone, `[lb^k, ub^k]`;
even `k` — `[lb^k, ub^k]` for `lb ≥ 0`, `[ub^k, lb^k]` for `ub ≤ 0`, `[0, max(lb^k, ub^k)]` for a zero-crossing box; the type
of the argument is kept.  All boxes (infinite bounds included: `(±∞)^k`). -/
theorem C06_pow_nat (e : Env) (val : Val) (h : Feasible e val) (a k : Nat) (hk : 2 ≤ k) :
    ∃ pre, preproPow e a (k : Rat) = .keep pre (.pow a k) ∧ pre.Contains (Con.eval tr trp val (.pow a k)) := by
  obtain ⟨hl, hu, hi⟩ := h a
  have hk1 : 1 ≤ k := by omega
  have hp0 : ¬ ((k : Rat) = 0) := by exact_mod_cast (by omega : ¬ k = 0)
  have hp1 : ¬ ((k : Rat) = 1) := by exact_mod_cast (by omega : ¬ k = 1)
  have hint : ratIsInt (k : Rat) = true := by simp [ratIsInt]
  have hnn : ¬ ((k : Rat) < 0) := by simp
  have hden : (k : Rat).den = 1 := by simp
  have hnum : (k : Rat).num = (k : Int) := by simp
  have hval : Con.eval tr trp val (.pow a k) = val a ^ k := by
    simp only [Con.eval, hden, if_true, hnum, zpow_natCast]
  have hpow : ∀ b, ER.pow b (k : Rat) = some (powi b (k : Int)) := by
    intro b; simp only [ER.pow, hden, if_true, hnum]
  unfold preproPow
  simp only [hp0, hp1, if_false, hint, Bool.not_true, Bool.false_and, hnn, decide_false, Bool.or_self, hpow,
    Bool.false_eq_true, Bool.true_and]
  have hnn' : (0 : Rat) ≤ (k : Rat) := by simp
  simp only [hnn', decide_true, if_true]
  rw [hval]
  -- the bounds
  by_cases hev : ratIsInt ((k : Rat) / 2) = true
  · have he : Even k := (even_iff_ratIsInt_half k).mp hev
    by_cases hneg : lt (e a).lb (fin 0) = true
    · by_cases hpos : lt (fin 0) (e a).ub = true
      · -- zero-crossing box
        simp only [hev, hneg, hpos, Bool.and_self, if_true]
        refine ⟨_, rfl, ?_⟩
        have h0 : (0 : Rat) ≤ val a ^ k := Even.pow_nonneg he _
        have hub : ubOK (smax (powi (e a).lb k) (powi (e a).ub k)) (val a ^ k) := by
          rcases le_total 0 (val a) with hx | hx
          · exact smax_ub_right _ _ _ (pow_nonneg_ub _ _ k hk1 hx hu) (powi_ne_nan _ k hk1 (ne_nan_of_lbOK hl))
          · exact smax_ub_left _ _ _ (pow_even_nonpos_ub _ _ k hk1 he hx hl) (powi_ne_nan _ k hk1 (ne_nan_of_ubOK hu))
        obtain ⟨o1, o2, _, _⟩ := order_pair (fin 0) _ _ (by simpa [lbOK] using h0) hub
        exact ⟨narrow_lb _ _ _ (by simp [Pre.setType, lbOK]) (Or.inr o1),
               narrow_ub _ _ _ (by simp [Pre.setType, ubOK]) (Or.inr o2), fun hh => (hi hh).pow k⟩
      · -- ub ≤ 0: decreasing
        simp only [hev, hneg, hpos, Bool.and_false, Bool.and_true, Bool.false_eq_true, if_false]
        refine ⟨_, rfl, ?_⟩
        have hx : val a ≤ 0 := by
          cases hub : (e a).ub <;> simp_all [ER.lt, ubOK]; linarith
        have hup := pow_even_nonpos_ub _ _ k hk1 he hx hl
        have hlo : lbOK (powi (e a).ub k) (val a ^ k) := by
          rw [powi_nat _ k hk1]
          cases hub : (e a).ub <;> simp_all [ER.lt, ubOK, lbOK]
          next q =>
            have := pow_le_pow_left₀ (by linarith : (0 : Rat) ≤ -q) (by linarith : -q ≤ -val a) k
            rwa [Even.neg_pow he, Even.neg_pow he] at this
        obtain ⟨_, _, o3, o4⟩ := order_pair _ _ _ hlo hup
        exact ⟨narrow_lb _ _ _ (by simp [Pre.setType, lbOK]) (Or.inr o3),
               narrow_ub _ _ _ (by simp [Pre.setType, ubOK]) (Or.inr o4), fun hh => (hi hh).pow k⟩
    · -- lb ≥ 0: increasing
      simp only [hev, hneg, Bool.and_false, Bool.false_and, Bool.false_eq_true, if_false]
      refine ⟨_, rfl, ?_⟩
      have hlb : ∃ q, (e a).lb = fin q ∧ 0 ≤ q := by
        cases hlb : (e a).lb <;> simp_all [ER.lt, lbOK]
      obtain ⟨q, hq, hq0⟩ := hlb
      have hx : 0 ≤ val a := by rw [hq] at hl; simp only [lbOK] at hl; linarith
      have hup := pow_nonneg_ub _ _ k hk1 hx hu
      have hlo : lbOK (powi (e a).lb k) (val a ^ k) := by
        rw [hq, powi_nat _ k hk1]; simp only [lbOK]
        rw [hq] at hl; exact pow_le_pow_left₀ hq0 hl k
      obtain ⟨o1, o2, _, _⟩ := order_pair _ _ _ hlo hup
      exact ⟨narrow_lb _ _ _ (by simp [Pre.setType, lbOK]) (Or.inr o1),
             narrow_ub _ _ _ (by simp [Pre.setType, ubOK]) (Or.inr o2), fun hh => (hi hh).pow k⟩
  · -- odd exponent: monotone
    have ho : Odd k := by
      rcases Nat.even_or_odd k with he | ho
      · exact absurd ((even_iff_ratIsInt_half k).mpr he) hev
      · exact ho
    simp only [hev, Bool.false_and, Bool.false_eq_true, if_false]
    refine ⟨_, rfl, ?_⟩
    obtain ⟨o1, o2, _, _⟩ := order_pair _ _ _ (pow_odd_lb _ _ k hk1 ho hl) (pow_odd_ub _ _ k hk1 ho hu)
    exact ⟨narrow_lb _ _ _ (by simp [Pre.setType, lbOK]) (Or.inr o1),
           narrow_ub _ _ _ (by simp [Pre.setType, ubOK]) (Or.inr o2), fun hh => (hi hh).pow k⟩


/-- **power, exponents 0 and 1**: `x^0` is replaced by the constant 1, `x^1` by `x` itself — both exact. -/
theorem C06_pow_01 (e : Env) (val : Val) (a : Nat) :
    (∃ pre, preproPow e a 0 = .keep pre (.pow a 0) ∧ pre.Contains (Con.eval tr trp val (.pow a 0)) ∧ pre.isConstant = true) ∧
    (preproPow e a 1 = .alias a ∧ val a = Con.eval tr trp val (.pow a 1)) := by
  constructor
  · refine ⟨({} : Pre).narrow (fin 1) (fin 1), by simp [preproPow], ?_, by decide +kernel⟩
    have : Con.eval tr trp val (.pow a 0) = 1 := by simp [Con.eval]
    rw [this]
    exact fresh_range_sound' (fin 1) (fin 1) 1 (Or.inr (by simp [lbOK])) (Or.inr (by simp [ubOK]))
  · exact ⟨by simp [preproPow], by simp [Con.eval]⟩

/-- **power with a negative integer exponent `−k`**: nothing is inferred when `lb < 0`; for `lb ≥ 0` the function is
decreasing on the positive reals: `[ub^(−k), lb^(−k)]` with `0^(−k) = +∞`, `(+∞)^(−k) = 0`.  Stated at the points where the
expression is defined (`x ≠ 0`). -/
theorem C06_pow_neg (e : Env) (val : Val) (h : Feasible e val) (a k : Nat) (hk : 1 ≤ k) (hx0 : val a ≠ 0) :
    ∃ pre, preproPow e a (-(k : Rat)) = .keep pre (.pow a (-(k : Rat))) ∧
      pre.Contains (Con.eval tr trp val (.pow a (-(k : Rat)))) := by
  obtain ⟨hl, hu, _⟩ := h a
  have hkq : (0 : Rat) < (k : Rat) := by exact_mod_cast hk
  have hp0 : ¬ (-(k : Rat) = 0) := by linarith
  have hp1 : ¬ (-(k : Rat) = 1) := by linarith
  have hden : (-(k : Rat)).den = 1 := by simp
  have hnum : (-(k : Rat)).num = -(k : Int) := by simp
  have hint : ratIsInt (-(k : Rat)) = true := by simp [ratIsInt]
  have hneg : (-(k : Rat)) < 0 := by linarith
  have hnn : ¬ ((0 : Rat) ≤ -(k : Rat)) := by linarith
  have hval : Con.eval tr trp val (.pow a (-(k : Rat))) = (val a ^ k)⁻¹ := by
    simp only [Con.eval, hden, if_true, hnum, zpow_neg, zpow_natCast]
  have hpow : ∀ b, ER.pow b (-(k : Rat)) = some (powi b (-(k : Int))) := by
    intro b; simp only [ER.pow, hden, if_true, hnum]
  unfold preproPow
  simp only [hp0, hp1, if_false, hint, Bool.not_true, Bool.false_and, hneg, decide_true, Bool.true_and, Bool.false_or, hpow,
    hnn, decide_false, Bool.and_false, Bool.false_eq_true]
  by_cases hlbneg : lt (e a).lb (fin 0) = true
  · simp only [hlbneg, if_true]
    exact ⟨_, rfl, default_contains _⟩
  · simp only [hlbneg, Bool.false_eq_true, if_false, Bool.and_false, Bool.false_and]
    refine ⟨_, rfl, ?_⟩
    rw [hval]
    obtain ⟨q, hq, hq0⟩ : ∃ q, (e a).lb = fin q ∧ 0 ≤ q := by
      cases hlb : (e a).lb <;> simp_all [ER.lt, lbOK]
    rw [hq] at hl; simp only [lbOK] at hl
    have hx : 0 < val a := lt_of_le_of_ne (le_trans hq0 hl) (Ne.symm hx0)
    have hxk : 0 < val a ^ k := pow_pos hx k
    have hkneg : (-(k : Int)) < 0 := by omega
    have hknp : ¬ (0 < -(k : Int)) := by omega
    -- lb^(−k) is an upper bound
    have hup : ubOK (powi (e a).lb (-(k : Int))) ((val a ^ k)⁻¹) := by
      rw [hq]
      by_cases hq00 : q = 0
      · have hk0 : 0 < k := hk
        simp [powi, hq00, hk0, ubOK]
      · have hqpos : 0 < q := lt_of_le_of_ne hq0 (Ne.symm hq00)
        simp only [powi, hq00, false_and, if_false, ubOK, zpow_neg, zpow_natCast]
        exact inv_anti₀ (pow_pos hqpos k) (pow_le_pow_left₀ hq0 hl k)
    -- ub^(−k) is a lower bound
    have hlo : lbOK (powi (e a).ub (-(k : Int))) ((val a ^ k)⁻¹) := by
      cases hub : (e a).ub with
      | pinf => simp only [powi, hknp, if_false, lbOK]; exact (inv_pos.mpr hxk).le
      | fin u =>
        rw [hub] at hu; simp only [ubOK] at hu
        have hu0 : u ≠ 0 := by linarith
        simp only [powi, hu0, false_and, if_false, lbOK, zpow_neg, zpow_natCast]
        exact inv_anti₀ hxk (pow_le_pow_left₀ hx.le hu k)
      | ninf => rw [hub] at hu; simp [ubOK] at hu
      | nan => rw [hub] at hu; simp [ubOK] at hu
    obtain ⟨_, _, o3, o4⟩ := order_pair _ _ _ hlo hup
    exact ⟨narrow_lb _ _ _ (by simp [lbOK]) (Or.inr o3), narrow_ub _ _ _ (by simp [ubOK]) (Or.inr o4),
           fun hh => by simp [Pre.narrow] at hh⟩

/-! ## narrowing from results down to arguments (constr_prop_down.h) -/

/-- **narrowing from the result down to the arguments** (`constr_prop_down.h`): if the result of an
and / or / not / implication / if-then-else lies in `[lb, ub]` and the logical arguments are 0/1-valued, every bound
handed to an argument contains the argument's value — nothing consistent with the result is excluded. -/
theorem C06_prop_down (c : Con) (val : Val) (lb ub : Rat)
    (hbin : ∀ n ∈ propDownArgs c lb ub, val n.1 = 0 ∨ val n.1 = 1)
    (hl : lb ≤ Con.eval tr trp val c) (hu : Con.eval tr trp val c ≤ ub) :
    ∀ n ∈ propDownArgs c lb ub, n.2.1 ≤ val n.1 ∧ val n.1 ≤ n.2.2 := by
  intro n hn
  have hb := hbin n hn
  cases c with
  | and as =>
    simp only [propDownArgs, List.mem_map] at hn
    obtain ⟨a, ha, rfl⟩ := hn
    simp only [Con.eval] at hl
    refine ⟨?_, by rcases hb with h | h <;> simp only [h] <;> norm_num⟩
    by_cases hall : (as.all fun v => truthy (val v)) = true
    · have := (List.all_eq_true.mp hall) a ha
      simp only [truthy, decide_eq_true_eq] at this
      rcases hb with h | h
      · rw [h] at this; norm_num at this
      · simp only [hall, b2r, if_true] at hl; simp only [h]; exact hl
    · have hf : (as.all fun v => truthy (val v)) = false := by simpa using hall
      simp only [hf, b2r] at hl
      rcases hb with h | h <;> simp only [h] <;> norm_num at hl ⊢ <;> linarith
  | or as =>
    simp only [propDownArgs, List.mem_map] at hn
    obtain ⟨a, ha, rfl⟩ := hn
    simp only [Con.eval] at hu
    refine ⟨by rcases hb with h | h <;> simp only [h] <;> norm_num, ?_⟩
    by_cases hany : (as.any fun v => truthy (val v)) = true
    · simp only [hany, b2r, if_true] at hu
      rcases hb with h | h <;> simp only [h] <;> linarith
    · have hf : (as.any fun v => truthy (val v)) = false := by simpa using hany
      have := (List.any_eq_false.mp hf) a ha
      simp only [truthy, decide_eq_true_eq] at this
      simp only [hf, b2r] at hu
      rcases hb with h | h
      · simp only [h]; norm_num at hu; exact hu
      · rw [h] at this; norm_num at this
  | not a =>
    simp only [propDownArgs, List.mem_singleton] at hn
    subst hn
    simp only [Con.eval] at hl hu
    rcases hb with h | h
    · simp only [h, truthy, b2r] at hl hu ⊢; norm_num at hl hu ⊢; constructor <;> linarith
    · simp only [h, truthy, b2r] at hl hu ⊢; norm_num at hl hu ⊢; constructor <;> linarith
  | impl a b d =>
    refine ⟨?_, ?_⟩ <;>
      (simp only [propDownArgs, List.mem_cons, List.mem_singleton, List.not_mem_nil, or_false] at hn
       rcases hn with rfl | rfl | rfl <;> rcases hb with h | h <;> simp only [h] <;> norm_num)
  | ifthen a b d =>
    simp only [propDownArgs, List.mem_singleton] at hn
    subst hn
    rcases hb with h | h <;> simp only [h] <;> norm_num
  | _ => simp [propDownArgs] at hn

/-- the rule of the seeded change C06-2 (`and`: hand `[lb, ub]` instead of `[lb, 1]` to the arguments) is NOT sound:
`and(a, b)` with `a = 1, b = 0` has result `0 ∈ [0, 0]`, yet `a = 1 ∉ [0, 0]`. -/
theorem C06_prop_down_and_ub_unsound :
    ∃ (val : Val), Con.eval tr trp val (.and [0, 1]) ≤ 0 ∧ (val 0 = 0 ∨ val 0 = 1) ∧ (val 1 = 0 ∨ val 1 = 1) ∧ ¬ (val 0 ≤ 0) := by
  refine ⟨fun i => if i = 0 then 1 else 0, ?_, Or.inr rfl, Or.inl rfl, by norm_num⟩
  simp [Con.eval, truthy, b2r]
  norm_num

/-! ## ties to the definitions generated from the source (`lean/MpVerif/Gen/C06Prepro.lean`, translators/gen_c06.py) -/

theorem isInteger_fin (c : Rat) : isInteger (fin c) = ratIsInt c := by
  simp only [isInteger, ER.floor, ER.ceil, ER.eq, ratIsInt]
  by_cases h : c.den = 1
  · have hc : c = (c.num : Rat) := (Rat.coe_int_num_of_den_eq_one h).symm
    have h1 : c.floor = c.num := by rw [hc]; simp [Rat.floor_intCast]
    have h2 : c.ceil = c.num := by simp [Rat.ceil, h]
    simp [h, h1, h2]
  · simp only [h, decide_false, decide_eq_false_iff_not]
    intro heq
    have h1 : ((c.floor : Int) : Rat) ≤ c := Rat.floor_le c
    have h2 : c ≤ ((c.ceil : Int) : Rat) := Rat.le_ceil
    have : c = ((c.floor : Int) : Rat) := le_antisymm (by rw [heq]; exact h2) h1
    apply h
    rw [this]; simp

/-- decoding of a generated overload's effect into the model's `Decision` -/
def GOut.toDecision (g : GOut) (con : Con) : Decision :=
  match g.rv with
  | some (.v n) => .alias n
  | some (.lin (fin c) v (fin c0)) => .redirect (.lin c0 [(c, v)])
  | some _ => .unsupported
  | none => .keep g.pre con

theorem C06_gen_narrow (p : Pre) (l u : ER) : p.narrow l u = MpVerif.Gen.C06.narrow p l u := rfl
theorem C06_gen_isConstant (p : Pre) : p.isConstant = MpVerif.Gen.C06.isConstant p := rfl
theorem C06_gen_addBounds (a b : Pre) : addBounds a b = MpVerif.Gen.C06.addBounds a b := by
  cases a with | mk al au ai => cases b with | mk bl bu bi => cases ai <;> cases bi <;> rfl
theorem C06_gen_productBounds (e : Env) (x y : Nat) : productBounds e x y = MpVerif.Gen.C06.productBounds e x y := by
  unfold productBounds MpVerif.Gen.C06.productBounds
  by_cases h : x = y <;> simp [h, listMinElem, listMaxElem]

theorem C06_gen_abs (e : Env) (a : Nat) : preproAbs e a = (MpVerif.Gen.C06.prepro_Abs e [a] []).toDecision (.abs a) := by
  unfold preproAbs MpVerif.Gen.C06.prepro_Abs
  simp only [List.getD_cons_zero]
  by_cases h1 : le (fin 0) (e a).lb = true
  · simp [h1, GOut.toDecision]
  · by_cases h2 : le (e a).ub (fin 0) = true
    · simp [h1, h2, GOut.toDecision, ER.neg]
    · simp [h1, h2, GOut.toDecision]


theorem C06_gen_withConst (r : Pre) (c0 : Rat) : withConst r c0 = MpVerif.Gen.C06.withConst r c0 := by
  unfold withConst MpVerif.Gen.C06.withConst
  rw [isInteger_fin]
  cases r with | mk l u i => cases i <;> cases h : ratIsInt c0 <;> simp [h]

theorem gen_linStep (e : Env) (t : Rat × Nat) (r : Pre) :
    (let c := t.1; let b := e t.2
     let r' : Pre := if 0 ≤ c then { r with lb := add r.lb (mul (fin c) b.lb), ub := add r.ub (mul (fin c) b.ub) }
                     else { r with lb := add r.lb (mul (fin c) b.ub), ub := add r.ub (mul (fin c) b.lb) }
     ({ r' with int := r'.int && (b.int && ratIsInt c) } : Pre)) = MpVerif.Gen.C06.linStep e t.1 t.2 r := by
  unfold MpVerif.Gen.C06.linStep
  rw [isInteger_fin, le_fin]
  cases r with | mk l u i =>
  by_cases hc : 0 ≤ t.1 <;> cases i <;> cases h1 : (e t.2).int <;> cases h2 : ratIsInt t.1 <;> simp [hc, h1, h2]

/-- **generated tie**: `ComputeBoundsAndType(const LinTerms&)` — the hand model equals the fold (last term first, as the
C++ loop) of the loop body translated from the source, started from the translated initialisation. -/
theorem C06_gen_boundsLin (e : Env) (ts : LinT) :
    boundsLin e ts = ts.foldr (fun t r => MpVerif.Gen.C06.linStep e t.1 t.2 r) MpVerif.Gen.C06.linInit := by
  induction ts with
  | nil => rfl
  | cons t ts ih =>
    rw [boundsLin_cons, List.foldr_cons, ← ih]
    exact gen_linStep e t (boundsLin e ts)

theorem gen_quadStep (e : Env) (t : Rat × Nat × Nat) (r : Pre) :
    (let c := t.1; let v1 := t.2.1; let v2 := t.2.2
     let pb := productBounds e v1 v2
     let r' : Pre := if 0 ≤ c then { r with lb := add r.lb (mul (fin c) pb.1), ub := add r.ub (mul (fin c) pb.2) }
                     else { r with lb := add r.lb (mul (fin c) pb.2), ub := add r.ub (mul (fin c) pb.1) }
     ({ r' with int := r'.int && ((e v1).int && (e v2).int && ratIsInt c) } : Pre)) =
      MpVerif.Gen.C06.quadStep e t.1 t.2.1 t.2.2 r := by
  unfold MpVerif.Gen.C06.quadStep
  rw [isInteger_fin, le_fin, ← C06_gen_productBounds]
  cases r with | mk l u i =>
  by_cases hc : 0 ≤ t.1 <;> cases i <;> cases h1 : (e t.2.1).int <;> cases h3 : (e t.2.2).int <;> cases h2 : ratIsInt t.1 <;>
    simp [hc, h1, h2, h3]

theorem C06_gen_boundsQuadT (e : Env) (qs : QuadT) :
    boundsQuadT e qs = qs.foldr (fun t r => MpVerif.Gen.C06.quadStep e t.1 t.2.1 t.2.2 r) MpVerif.Gen.C06.quadInit := by
  induction qs with
  | nil => rfl
  | cons t qs ih =>
    rw [boundsQuadT_cons, List.foldr_cons, ← ih]
    exact gen_quadStep e t (boundsQuadT e qs)

theorem C06_gen_fixEqualityResult (b : Pre) (rhs : Rat) (p : Pre) :
    fixEqualityResult b rhs p = MpVerif.Gen.C06.fixEqualityResult b (fin rhs) p := by
  unfold fixEqualityResult MpVerif.Gen.C06.fixEqualityResult
  rw [isInteger_fin]
  cases hb : b.int <;> simp [hb]

theorem C06_gen_roundRhs (kind : Int) (b : Pre) (rhs : Rat) :
    fin (roundRhs kind b.int rhs) = MpVerif.Gen.C06.roundRhs kind b (fin rhs) := by
  unfold roundRhs MpVerif.Gen.C06.roundRhs
  have hi : (!(ER.eq (ER.floor (fin rhs)) (ER.ceil (fin rhs)))) = !ratIsInt rhs := by
    rw [← isInteger_fin]; rfl
  rw [hi]
  cases hb : b.int <;> cases hr : ratIsInt rhs <;> simp [hb, hr, ER.floor, ER.ceil]
  by_cases h1 : kind = 1
  · simp [h1]
  · by_cases h2 : kind = -1
    · simp [h2]
    · by_cases h3 : kind = 2
      · simp [h3]
      · have h1' : ¬ (1 = kind) := fun h => h1 h.symm
        have h2' : ¬ (-1 = kind) := fun h => h2 h.symm
        have h3' : ¬ (2 = kind) := fun h => h3 h.symm
        simp [h1, h2, h3, h1', h2', h3']

/-- which generated overload a constraint of the model is preprocessed by (the kinds whose overloads are translated) -/
def genOverload (e : Env) : Con → Option GOut
  | .abs a => some (MpVerif.Gen.C06.prepro_Abs e [a] [])
  | .ifthen c t f => some (MpVerif.Gen.C06.prepro_IfThen e [c, t, f] [])
  | .div a b => some (MpVerif.Gen.C06.prepro_Div e [a, b] [])
  | .not a => some (MpVerif.Gen.C06.prepro_Not e [a] [])
  | .alldiff as => some (MpVerif.Gen.C06.prepro_AllDiff e as [])
  | .impl c t f => some (MpVerif.Gen.C06.prepro_Implication e [c, t, f] [])
  | .count as => some (MpVerif.Gen.C06.prepro_Count e as [])
  | .nconst k as => some (MpVerif.Gen.C06.prepro_NumberofConst e as [k])
  | .nvar as => some (MpVerif.Gen.C06.prepro_NumberofVar e as [])
  | .min as => some (MpVerif.Gen.C06.prepro_Min e as [])
  | .max as => some (MpVerif.Gen.C06.prepro_Max e as [])
  | .un .exp a => some (MpVerif.Gen.C06.prepro_Exp e [a] [])
  | .un .log a => some (MpVerif.Gen.C06.prepro_Log e [a] [])
  | .un .sin a => some (MpVerif.Gen.C06.prepro_Sin e [a] [])
  | .un .cos a => some (MpVerif.Gen.C06.prepro_Cos e [a] [])
  | .un .tan a => some (MpVerif.Gen.C06.prepro_Tan e [a] [])
  | .un .asin a => some (MpVerif.Gen.C06.prepro_Asin e [a] [])
  | .un .acos a => some (MpVerif.Gen.C06.prepro_Acos e [a] [])
  | .un .atan a => some (MpVerif.Gen.C06.prepro_Atan e [a] [])
  | .un .sinh a => some (MpVerif.Gen.C06.prepro_Sinh e [a] [])
  | .un .cosh a => some (MpVerif.Gen.C06.prepro_Cosh e [a] [])
  | .un .tanh a => some (MpVerif.Gen.C06.prepro_Tanh e [a] [])
  | .un .asinh a => some (MpVerif.Gen.C06.prepro_Asinh e [a] [])
  | .un .acosh a => some (MpVerif.Gen.C06.prepro_Acosh e [a] [])
  | .un .atanh a => some (MpVerif.Gen.C06.prepro_Atanh e [a] [])
  | .unp .expa a p => some (MpVerif.Gen.C06.prepro_ExpA e [a] [p])
  | .unp .loga a p => some (MpVerif.Gen.C06.prepro_LogA e [a] [p])
  | _ => none

/-- **generated tie for the `PreprocessConstraint` overloads** translated from the source (abs, if-then-else, div, not, alldiff,
implication, count, numberof-const/var, min, max, exp, a^x, log, log_a, sin … atanh): the hand model's decision and its
argument narrowing are exactly what the translated overload computes. -/
theorem C06_gen_prepro (e : Env) (c : Con) (g : GOut) (h : genOverload e c = some g) :
    prepro e c = g.toDecision c ∧ argNarrowing e c = g.narrow.head? := by
  cases c with
  | abs a => injection h with h; subst h; exact ⟨C06_gen_abs e a, by
      simp only [argNarrowing, MpVerif.Gen.C06.prepro_Abs]; split <;> [rfl; (split <;> rfl)]⟩
  | un f a =>
    cases f <;> injection h with h <;> subst h <;>
      first
      | exact ⟨rfl, rfl⟩
      | (refine ⟨?_, ?_⟩
         · simp only [prepro, MpVerif.Gen.C06.prepro_Log, List.getD_cons_zero]
           split_ifs <;> rfl
         · simp only [argNarrowing, MpVerif.Gen.C06.prepro_Log, List.getD_cons_zero]
           split <;> simp [logLbLit] <;> norm_num)
  | unp f a p => cases f <;> injection h with h <;> subst h <;> exact ⟨rfl, rfl⟩
  | ifthen c t f => injection h with h; subst h; exact ⟨rfl, rfl⟩
  | div a b =>
    injection h with h; subst h
    refine ⟨?_, ?_⟩
    · simp only [prepro, preproDiv, MpVerif.Gen.C06.prepro_Div, List.getD_cons_zero, List.getD_cons_succ,
        List.foldl_cons, List.foldl_nil]
      split_ifs <;> rfl
    · simp only [argNarrowing, MpVerif.Gen.C06.prepro_Div]
      split_ifs <;> rfl
  | not a => injection h with h; subst h; exact ⟨rfl, rfl⟩
  | alldiff as => injection h with h; subst h; exact ⟨rfl, rfl⟩
  | impl c t f => injection h with h; subst h; exact ⟨rfl, rfl⟩
  | count as => injection h with h; subst h; exact ⟨rfl, rfl⟩
  | nconst k as => injection h with h; subst h; exact ⟨rfl, rfl⟩
  | nvar as =>
    injection h with h; subst h
    refine ⟨?_, rfl⟩
    simp only [prepro, MpVerif.Gen.C06.prepro_NumberofVar, GOut.toDecision, ER.sub, ER.neg, ER.add]
    congr 3
    congr 1
    push_cast; ring
  | min as => injection h with h; subst h; exact ⟨rfl, rfl⟩
  | max as => injection h with h; subst h; exact ⟨rfl, rfl⟩
  | _ => simp [genOverload] at h


/-- **generated tie, `converter_model.h`**: `is_fixed`, `is_binary_var`, `common_type` (loop with early exit) and the four array helpers
`lb_array`, `lb_max_array`, `ub_array`, `ub_min_array` (range-for accumulations) translated from the source equal the hand model's functions
for all environments, variables and argument lists — so `C06_min`, `C06_max`, `C06_ifthen`, `C06_and/or`, the binary-variable reuse of
conditional equalities and the history theorem speak about the translated helpers. -/
theorem C06_gen_model_helpers (e : Env) (v : Nat) (va : List Nat) :
    isFixed e v = MpVerif.Gen.C06.CM.isFixed e v ∧ isBinaryVar e v = MpVerif.Gen.C06.CM.isBinaryVar e v ∧
    commonType e va = MpVerif.Gen.C06.CM.commonType e va ∧
    lbArray e va = MpVerif.Gen.C06.CM.lbArray e va ∧ lbMaxArray e va = MpVerif.Gen.C06.CM.lbMaxArray e va ∧
    ubArray e va = MpVerif.Gen.C06.CM.ubArray e va ∧ ubMinArray e va = MpVerif.Gen.C06.CM.ubMinArray e va := by
  refine ⟨rfl, ?_, ?_, rfl, rfl, rfl, rfl⟩
  · simp only [isBinaryVar, MpVerif.Gen.C06.CM.isBinaryVar, MpVerif.Gen.C06.CM.isIntegerVar, MpVerif.Gen.C06.CM.isFixed,
      MpVerif.Gen.C06.CM.fixedValue, isFixed]
    cases (e v).int <;> simp
  · simp only [commonType, MpVerif.Gen.C06.CM.commonType, MpVerif.Gen.C06.CM.isIntegerVar, MpVerif.Gen.C06.CM.isFixed,
      MpVerif.Gen.C06.CM.fixedValue, isFixed]
    have hq : ∀ v, ((!(true == (e v).int)) && ((!(ER.eq (e v).lb (e v).ub)) || (!(ER.isInteger (e v).lb)))) =
        !((e v).int || (ER.eq (e v).lb (e v).ub && ER.isInteger (e v).lb)) := by
      intro v
      cases (e v).int <;> cases ER.eq (e v).lb (e v).ub <;> cases ER.isInteger (e v).lb <;> rfl
    simp only [hq]
    rw [List.all_eq_not_any_not]
    cases (va.any fun v => !((e v).int || (ER.eq (e v).lb (e v).ub && ER.isInteger (e v).lb))) <;> rfl

/-- constraint types the model has a preprocessing rule for (`prepro` arms; PL has no rule in the source either: empty overload) -/
def modelOverloadTypes : List String := ["ConditionalConstraint<AlgebraicConstraint<Body, AlgConRhs<kind>>>", "mp::AbsConstraint", "mp::AcosConstraint", "mp::AcoshConstraint", "mp::AllDiffConstraint", "mp::AndConstraint", "mp::AsinConstraint", "mp::AsinhConstraint", "mp::AtanConstraint", "mp::AtanhConstraint", "mp::CondLinConEQ", "mp::CondQuadConEQ", "mp::CosConstraint", "mp::CoshConstraint", "mp::CountConstraint", "mp::DivConstraint", "mp::ExpAConstraint", "mp::ExpConstraint", "mp::IfThenConstraint", "mp::ImplicationConstraint", "mp::LinearFunctionalConstraint", "mp::LogAConstraint", "mp::LogConstraint", "mp::MaxConstraint", "mp::MinConstraint", "mp::NotConstraint", "mp::NumberofConstConstraint", "mp::NumberofVarConstraint", "mp::OrConstraint", "mp::PLConstraint", "mp::PowConstraint", "mp::QuadraticFunctionalConstraint", "mp::SinConstraint", "mp::SinhConstraint", "mp::TanConstraint", "mp::TanhConstraint"]

/-- **structure tie**: the set of `PreprocessConstraint` overloads in the source (first-parameter types, extracted from the AST on
every run) is exactly the set of constraint types the model's `prepro` handles — an overload added to or removed from the
source makes this fail. -/
theorem C06_gen_overload_types : MpVerif.Gen.C06.overloadTypes = modelOverloadTypes := by decide

/-! ## Round 5: assign-level soundness for every covered kind, the history theorem, guards -/

theorem getD_push_lt {α} (a : Array α) (b d : α) (i : Nat) (h : i < a.size) : (a.push b).getD i d = a.getD i d := by
  simp [Array.getD, h, Nat.lt_succ_of_lt h, Array.getElem_push_lt]
theorem getD_push_eq {α} (a : Array α) (b d : α) : (a.push b).getD a.size d = b := by
  simp [Array.getD]
theorem getD_ge {α} (a : Array α) (d : α) (i : Nat) (h : a.size ≤ i) : a.getD i d = d := by
  simp [Array.getD, Nat.not_lt.mpr h]
theorem getD_set_ne {α} (a : Array α) (x d : α) (n i : Nat) (h : i ≠ n) : (a.setIfInBounds n x).getD i d = a.getD i d := by
  simp only [Array.getD, Array.size_setIfInBounds]
  split
  · next hi => exact Array.getElem_setIfInBounds_ne hi (Ne.symm h)
  · rfl
theorem getD_set_eq {α} (a : Array α) (x d : α) (n : Nat) (h : n < a.size) : (a.setIfInBounds n x).getD n d = x := by
  simp [Array.getD, h]

def freeBox : VarB := { lb := ninf, ub := pinf, int := false }
theorem inBox_free (x : Rat) : InBox freeBox x := ⟨trivial, trivial, fun h => by simp [freeBox] at h⟩

/-- **no value is cut off** (state invariant): whenever the variables WITHOUT a defining constraint (original variables,
fixed constants) take values in their boxes and every defined variable equals the value of its defining constraint, every
defined variable lies in the bounds and type the converter recorded for it. -/
def BoundsSound (tr : UnFn → Rat → Rat) (trp : UnPFn → Rat → Rat → Rat) (s : State) : Prop :=
  ∀ val, (∀ i, i < s.vars.size → s.defs.getD i none = none → InBox (s.env i) (val i)) → DefsHold tr trp s val →
    ∀ i, i < s.vars.size → InBox (s.env i) (val i)

theorem feasible_of_inbox (s : State) (val : Val) (h : ∀ i, i < s.vars.size → InBox (s.env i) (val i)) : Feasible s.env val := by
  intro v
  by_cases hv : v < s.vars.size
  · exact h v hv
  · have : s.env v = freeBox := by simp only [State.env]; exact getD_ge _ _ _ (Nat.le_of_not_lt hv)
    rw [this]; exact inBox_free _



/-- the state after `AddVar` + `AddConstraint` of `finish` -/
def State.pushDef (s : State) (b : VarB) (con : Con) : State :=
  { s with vars := s.vars.push b, defs := (s.defs.push none).setIfInBounds s.vars.size (some con) }

theorem pushDef_env_lt (s : State) (b : VarB) (con : Con) (i : Nat) (h : i < s.vars.size) : (s.pushDef b con).env i = s.env i := by
  simp only [State.env, State.pushDef]; exact getD_push_lt _ _ _ _ h
theorem pushDef_env_eq (s : State) (b : VarB) (con : Con) : (s.pushDef b con).env s.vars.size = b := by
  simp only [State.env, State.pushDef]; exact getD_push_eq _ _ _
theorem pushDef_defs_lt (s : State) (b : VarB) (con : Con) (hwf : s.WF) (i : Nat) (h : i < s.vars.size) :
    (s.pushDef b con).defs.getD i none = s.defs.getD i none := by
  simp only [State.pushDef]
  rw [getD_set_ne _ _ _ _ _ (Nat.ne_of_lt h)]
  exact getD_push_lt _ _ _ _ (by rw [hwf]; exact h)
theorem pushDef_defs_eq (s : State) (b : VarB) (con : Con) (hwf : s.WF) :
    (s.pushDef b con).defs.getD s.vars.size none = some con := by
  simp only [State.pushDef]
  exact getD_set_eq _ _ _ _ (by rw [Array.size_push, hwf]; exact Nat.lt_succ_self _)
theorem pushDef_wf (s : State) (b : VarB) (con : Con) (hwf : s.WF) : (s.pushDef b con).WF := by
  simp only [State.WF, State.pushDef, Array.size_setIfInBounds, Array.size_push] at *; rw [hwf]

theorem finish_eq (s : State) (pre : Pre) (con : Con) :
    s.finish pre con =
      if pre.isConstant then (s, .const pre.lb)
      else match s.mapFind con with
        | some v => (s, .var v)
        | none => (s.pushDef { lb := pre.lb, ub := pre.ub, int := pre.int } con, .var s.vars.size) := by
  unfold State.finish
  by_cases hc : pre.isConstant = true
  · simp [hc]
  · have hne : eq pre.lb pre.ub = false := by simpa [Pre.isConstant] using hc
    simp only [hc, State.addVar, hne, State.addVarRaw, State.pushDef]
    cases s.mapFind con <;> rfl

/-- `finish` keeps the invariant, given that the inferred `pre` contains the value of the stored constraint at every valuation
that is feasible for the current state and satisfies its definitions -/
theorem finish_bounds (s : State) (pre : Pre) (con : Con) (hwf : s.WF) (hb : BoundsSound tr trp s)
    (hpre : ∀ val, Feasible s.env val → DefsHold tr trp s val → pre.Contains (con.eval tr trp val)) :
    BoundsSound tr trp (s.finish pre con).1 ∧ (s.finish pre con).1.WF ∧ (s.finish pre con).1.opts = s.opts := by
  by_cases hc : pre.isConstant = true
  · have : s.finish pre con = (s, .const pre.lb) := by rw [finish_eq]; simp [hc]
    rw [this]; exact ⟨hb, hwf, rfl⟩
  · cases hm : s.mapFind con with
    | some v =>
      have : s.finish pre con = (s, .var v) := by rw [finish_eq]; simp [hc, hm]
      rw [this]; exact ⟨hb, hwf, rfl⟩
    | none =>
      have : s.finish pre con = (s.pushDef { lb := pre.lb, ub := pre.ub, int := pre.int } con, .var s.vars.size) := by
        rw [finish_eq]; simp [hc, hm]
      rw [this]
      refine ⟨?_, pushDef_wf s _ con hwf, rfl⟩
      intro val hfree hdefs i hi
      have hsize : (s.pushDef { lb := pre.lb, ub := pre.ub, int := pre.int } con).vars.size = s.vars.size + 1 := by
        simp [State.pushDef]
      rw [hsize] at hi hfree
      -- the old part of the state
      have hd0 : DefsHold tr trp s val := by
        intro j d hj
        by_cases hjs : j < s.vars.size
        · exact hdefs j d (by rw [pushDef_defs_lt s _ con hwf j hjs]; exact hj)
        · have : s.defs.getD j none = none := getD_ge _ _ _ (by rw [hwf]; exact Nat.le_of_not_lt hjs)
          rw [this] at hj; cases hj
      have hold : ∀ j, j < s.vars.size → InBox (s.env j) (val j) := by
        apply hb val _ hd0
        intro j hj hnone
        have := hfree j (Nat.lt_succ_of_lt hj) (by rw [pushDef_defs_lt s _ con hwf j hj]; exact hnone)
        rwa [pushDef_env_lt s _ con j hj] at this
      by_cases his : i < s.vars.size
      · rw [pushDef_env_lt s _ con i his]; exact hold i his
      · have hi' : i = s.vars.size := by omega
        subst hi'
        rw [pushDef_env_eq]
        have hval : val s.vars.size = con.eval tr trp val := hdefs _ con (pushDef_defs_eq s _ con hwf)
        rw [hval]
        exact hpre val (feasible_of_inbox s val hold) hd0

def State.pushFixed (s : State) (k : ER) : State :=
  { s with vars := s.vars.push { lb := k, ub := k, int := false }, defs := s.defs.push none, fixed := (k, s.vars.size) :: s.fixed }

theorem makeFixed_eq (s : State) (k : ER) :
    s.makeFixedVar k = match s.fixed.find? (fun kv => eq kv.1 k) with
      | some kv => (s, kv.2)
      | none => (s.pushFixed k, s.vars.size) := by
  unfold State.makeFixedVar State.pushFixed
  cases s.fixed.find? (fun kv => eq kv.1 k) <;> rfl

theorem pushFixed_env_lt (s : State) (k : ER) (i : Nat) (h : i < s.vars.size) : (s.pushFixed k).env i = s.env i := by
  simp only [State.env, State.pushFixed]; exact getD_push_lt _ _ _ _ h
theorem pushFixed_defs_lt (s : State) (k : ER) (hwf : s.WF) (i : Nat) (h : i < s.vars.size) :
    (s.pushFixed k).defs.getD i none = s.defs.getD i none := by
  simp only [State.pushFixed]; exact getD_push_lt _ _ _ _ (by rw [hwf]; exact h)
theorem pushFixed_defs_eq (s : State) (k : ER) (hwf : s.WF) : (s.pushFixed k).defs.getD s.vars.size none = none := by
  simp only [State.pushFixed]; rw [← hwf]; exact getD_push_eq _ _ _

/-- `MakeFixedVar` keeps the invariant (the new variable has no definition: its box is part of the hypothesis) -/
theorem makeFixed_bounds (s : State) (k : ER) (hwf : s.WF) (hb : BoundsSound tr trp s) :
    BoundsSound tr trp (s.makeFixedVar k).1 ∧ (s.makeFixedVar k).1.WF ∧ (s.makeFixedVar k).1.opts = s.opts := by
  rw [makeFixed_eq]
  cases hf : s.fixed.find? (fun kv => eq kv.1 k) with
  | some kv => exact ⟨hb, hwf, rfl⟩
  | none =>
    refine ⟨?_, by simp only [State.WF, State.pushFixed, Array.size_push] at *; rw [hwf], rfl⟩
    intro val hfree hdefs i hi
    have hsize : (s.pushFixed k).vars.size = s.vars.size + 1 := by simp [State.pushFixed]
    simp only [hsize] at hi hfree
    have hd0 : DefsHold tr trp s val := by
      intro j d hj
      by_cases hjs : j < s.vars.size
      · exact hdefs j d (by rw [pushFixed_defs_lt s k hwf j hjs]; exact hj)
      · have : s.defs.getD j none = none := getD_ge _ _ _ (by rw [hwf]; exact Nat.le_of_not_lt hjs)
        rw [this] at hj; cases hj
    have hold : ∀ j, j < s.vars.size → InBox (s.env j) (val j) := by
      apply hb val _ hd0
      intro j hj hnone
      have := hfree j (Nat.lt_succ_of_lt hj) (by rw [pushFixed_defs_lt s k hwf j hj]; exact hnone)
      rwa [pushFixed_env_lt s k j hj] at this
    by_cases his : i < s.vars.size
    · rw [pushFixed_env_lt s k i his]; exact hold i his
    · have hi' : i = s.vars.size := by omega
      subst hi'
      exact hfree _ (Nat.lt_succ_self _) (pushFixed_defs_eq s k hwf)


theorem resultVar_bounds (s : State) (r : Res) (hwf : s.WF) (hb : BoundsSound tr trp s) :
    BoundsSound tr trp (State.resultVar (s, r)).1 ∧ (State.resultVar (s, r)).1.WF ∧ (State.resultVar (s, r)).1.opts = s.opts := by
  cases r with
  | const k => simp only [State.resultVar]; exact makeFixed_bounds tr trp s k hwf hb
  | var v => exact ⟨hb, hwf, rfl⟩
  | throw w => exact ⟨hb, hwf, rfl⟩
  | unsupported => exact ⟨hb, hwf, rfl⟩

/-- constraint kinds for which the per-kind soundness theorems above exist (conditional (in)equalities, `log`/`log_a`
(argument narrowing), negative / fractional exponents are NOT covered) -/
def CoveredBase : Con → Prop
  | .pow _ p => p.den = 1
  | .min as => as ≠ []
  | .max as => as ≠ []
  | .nvar as => as ≠ []
  | .un f _ => f ≠ .log
  | .unp f _ _ => f = .expa
  | .clin _ _ _ => False
  | .cquad _ _ _ _ => False
  | _ => True

/-- what the C++ asserts about the arguments: and/or take binary variables -/
def Adm (e : Env) : Con → Prop
  | .and as => ∀ a ∈ as, isBinaryVar e a = true
  | .or as => ∀ a ∈ as, isBinaryVar e a = true
  /- a negative exponent: either `lb < 0` (the code infers nothing) or `lb > 0` (the expression is defined on the whole box);
     `lb = 0` is excluded because `0^(−k)` has no value -/
  | .pow a p => p < 0 → (lt (e a).lb (fin 0) = true ∨ lt (fin 0) (e a).lb = true)
  | _ => True

/-- the interpretation of the transcendental functions respects the constant ranges the code assigns (proved for the real
functions in `C06_transcendental_ranges` / `C06_pi_rounded_ranges`; a hypothesis here because `Con.eval` is over `Rat`) -/
def TrRange (tr : UnFn → Rat → Rat) (trp : UnPFn → Rat → Rat → Rat) : Prop :=
  (∀ f x, f ≠ UnFn.log → (preproUn f).Contains (tr f x)) ∧
  (∀ p x, (({} : Pre).narrow (fin 0) pinf).Contains (trp UnPFn.expa p x))

/-- soundness of one preprocessing decision at a valuation -/
def DecisionSound (d : Decision) (c : Con) (val : Val) : Prop :=
  match d with
  | .keep pre c' => pre.Contains (c.eval tr trp val) ∧ c'.eval tr trp val = c.eval tr trp val
  | .alias v => val v = c.eval tr trp val
  | .redirect c2 => c2.eval tr trp val = c.eval tr trp val ∧ ∃ c0 ts, c2 = .lin c0 ts
  | _ => False

theorem nat_of_rat {p : Rat} (h1 : p.den = 1) (h0 : 0 ≤ p) : ∃ k : Nat, p = (k : Rat) := by
  have hp : p = (p.num : Rat) := (Rat.coe_int_num_of_den_eq_one h1).symm
  have hn : 0 ≤ p.num := Rat.num_nonneg.mpr h0
  refine ⟨p.num.toNat, ?_⟩
  have h2 : ((p.num.toNat : Int) : Rat) = (p.num : Rat) := by rw [Int.toNat_of_nonneg hn]
  rw [hp]; exact_mod_cast h2.symm

/-- **every covered kind**: the preprocessing decision is sound at every feasible valuation -/
theorem prepro_sound (e : Env) (c : Con) (val : Val) (hcov : CoveredBase c) (hadm : Adm e c) (htr : TrRange tr trp)
    (hf : Feasible e val) : DecisionSound tr trp (prepro e c) c val := by
  cases c with
  | lin c0 ts => obtain ⟨pre, hp, hc⟩ := C06_lin tr trp e val hf c0 ts; rw [hp]; exact ⟨hc, rfl⟩
  | quad c0 ts qs => obtain ⟨pre, hp, hc⟩ := C06_quad tr trp e val hf c0 ts qs; rw [hp]; exact ⟨hc, rfl⟩
  | pow a p =>
    by_cases hp0 : 0 ≤ p
    · obtain ⟨k, rfl⟩ := nat_of_rat hcov hp0
      show DecisionSound tr trp (preproPow e a (k : Rat)) _ val
      rcases Nat.lt_or_ge k 2 with hk | hk
      · have hk01 : k = 0 ∨ k = 1 := by omega
        rcases hk01 with rfl | rfl
        · obtain ⟨⟨pre, hp, hc, _⟩, _⟩ := C06_pow_01 tr trp e val a
          simp only [Nat.cast_zero]; rw [hp]; exact ⟨hc, rfl⟩
        · obtain ⟨_, hp, hc⟩ := C06_pow_01 tr trp e val a
          simp only [Nat.cast_one]; rw [hp]; exact hc
      · obtain ⟨pre, hp, hc⟩ := C06_pow_nat tr trp e val hf a k hk
        rw [hp]; exact ⟨hc, rfl⟩
    · -- negative integer exponent
      have hneg : p < 0 := not_le.mp hp0
      have hden : p.den = 1 := hcov
      obtain ⟨k, hk⟩ := nat_of_rat (p := -p) (by simpa using hden) (by linarith)
      have hpk : p = -(k : Rat) := by linarith
      have hk1 : 1 ≤ k := by
        rcases Nat.eq_zero_or_pos k with h0 | h0
        · subst h0; simp at hpk; linarith
        · exact h0
      subst hpk
      show DecisionSound tr trp (preproPow e a (-(k : Rat))) _ val
      rcases hadm hneg with hlb | hlb
      · -- lb < 0: nothing is inferred
        have h0 : ¬ (-(k : Rat) = 0) := by linarith
        have h1 : ¬ (-(k : Rat) = 1) := by linarith
        have : preproPow e a (-(k : Rat)) = .keep {} (.pow a (-(k : Rat))) := by
          simp [preproPow, h0, h1, hneg, hlb]
        rw [this]; exact ⟨default_contains _, rfl⟩
      · -- lb > 0: the argument cannot be 0
        have hx0 : val a ≠ 0 := by
          obtain ⟨hl, _, _⟩ := hf a
          cases hlbv : (e a).lb <;> simp_all [ER.lt, lbOK]
          linarith
        obtain ⟨pre, hp, hc⟩ := C06_pow_neg tr trp e val hf a k hk1 hx0
        rw [hp]; exact ⟨hc, rfl⟩
  | min as => obtain ⟨pre, hp, hc⟩ := C06_min tr trp e val hf as hcov; rw [hp]; exact ⟨hc, rfl⟩
  | max as => obtain ⟨pre, hp, hc⟩ := C06_max tr trp e val hf as hcov; rw [hp]; exact ⟨hc, rfl⟩
  | and as => exact C06_and tr trp e val hf as hadm
  | or as => exact C06_or tr trp e val hf as hadm
  | alldiff as => obtain ⟨hp, hc⟩ := C06_logical tr trp e val (.alldiff as) (Or.inr (Or.inr ⟨as, rfl⟩)); rw [hp]; exact ⟨hc, rfl⟩
  | count as => obtain ⟨⟨pre, hp, hc⟩, _⟩ := C06_count tr trp e val as 0; rw [hp]; exact ⟨hc, rfl⟩
  | nvar as =>
    cases as with
    | nil => exact absurd rfl hcov
    | cons r l => obtain ⟨pre, hp, hc⟩ := C06_nvar tr trp e val r l; rw [hp]; exact ⟨hc, rfl⟩
  | nconst k as => obtain ⟨_, ⟨pre, hp, hc⟩⟩ := C06_count tr trp e val as k; rw [hp]; exact ⟨hc, rfl⟩
  | abs a =>
    have := C06_abs tr trp e val hf a
    show DecisionSound tr trp (preproAbs e a) _ val
    cases hd : preproAbs e a with
    | keep pre c' => rw [hd] at this; obtain ⟨rfl, hc⟩ := this; exact ⟨hc, rfl⟩
    | «alias» v => rw [hd] at this; exact this
    | redirect c2 => rw [hd] at this; obtain ⟨rfl, hc⟩ := this; exact ⟨hc, _, _, rfl⟩
    | raise w => rw [hd] at this; exact this
    | unsupported => rw [hd] at this; exact this
  | not a => obtain ⟨hp, hc⟩ := C06_logical tr trp e val (.not a) (Or.inl ⟨a, rfl⟩); rw [hp]; exact ⟨hc, rfl⟩
  | div a b => exact ⟨C06_div tr trp e val hf a b, rfl⟩
  | ifthen a b d => obtain ⟨pre, hp, hc⟩ := C06_ifthen tr trp e val hf a b d; rw [hp]; exact ⟨hc, rfl⟩
  | impl a b d => obtain ⟨hp, hc⟩ := C06_logical tr trp e val (.impl a b d) (Or.inr (Or.inl ⟨a, b, d, rfl⟩)); rw [hp]; exact ⟨hc, rfl⟩
  | clin k r ts => exact hcov.elim
  | cquad k r ts qs => exact hcov.elim
  | un f a => exact ⟨htr.1 f (val a) hcov, rfl⟩
  | unp f a p => cases hcov; exact ⟨htr.2 p (val a), rfl⟩


theorem truthy_b2r (b : Bool) : truthy (b2r b) = b := by cases b <;> simp [truthy, b2r] <;> norm_num

/-- `IntegrateNested`: replacing an argument that is the result of an `and` (resp. `or`) by that constraint's arguments does not
change the value, in every valuation satisfying the definitions -/
theorem nest_and (s : State) (val : Val) (hd : DefsHold tr trp s val) (as : List Nat) :
    Con.eval tr trp val (.and (s.integrateNested true as)) = Con.eval tr trp val (.and as) := by
  simp only [Con.eval, State.integrateNested, List.all_flatMap]
  congr 1
  apply List.all_congr rfl
  intro v
  have hdv' : ∀ d, s.defs.getD v none = some d → val v = d.eval tr trp val := fun d h => hd v d h
  generalize s.defs.getD v none = o at hdv' ⊢
  cases o with
  | none => simp
  | some d =>
    have hv := hdv' d rfl
    cases d <;> simp
    all_goals (rw [hv]; simp only [Con.eval, truthy_b2r])

theorem nest_or (s : State) (val : Val) (hd : DefsHold tr trp s val) (as : List Nat) :
    Con.eval tr trp val (.or (s.integrateNested false as)) = Con.eval tr trp val (.or as) := by
  simp only [Con.eval, State.integrateNested, List.any_flatMap]
  congr 1
  apply List.any_congr rfl
  intro v
  have hdv' : ∀ d, s.defs.getD v none = some d → val v = d.eval tr trp val := fun d h => hd v d h
  generalize s.defs.getD v none = o at hdv' ⊢
  cases o with
  | none => simp
  | some d =>
    have hv := hdv' d rfl
    cases d <;> simp
    all_goals (rw [hv]; simp only [Con.eval, truthy_b2r])

/-- the constraint actually stored by `assignBase` for a `keep` decision -/
def State.nested (s : State) (pre : Pre) (con' : Con) : Con :=
  match con' with
  | .and as => if pre.isConstant || !s.opts.unnest then con' else Con.and (s.integrateNested true as)
  | .or as => if pre.isConstant || !s.opts.unnest then con' else Con.or (s.integrateNested false as)
  | _ => con'

theorem nested_eval (s : State) (pre : Pre) (con' : Con) (val : Val) (hd : DefsHold tr trp s val) :
    Con.eval tr trp val (s.nested pre con') = Con.eval tr trp val con' := by
  cases con' <;> simp only [State.nested]
  next as => split <;> [rfl; exact nest_and tr trp s val hd as]
  next as => split <;> [rfl; exact nest_or tr trp s val hd as]

theorem preproO_eq (o : Opts) (e : Env) (c : Con) (hcov : CoveredBase c) : preproO o e c = prepro e c := by
  cases c <;> first | rfl | exact hcov.elim
theorem argNarrowing_none (e : Env) (c : Con) (hcov : CoveredBase c) : argNarrowing e c = none := by
  cases c with
  | un f a => cases f <;> first | rfl | exact absurd rfl hcov
  | unp f a p => cases hcov; rfl
  | _ => rfl

theorem assignBase_keep (s : State) (c : Con) (pre : Pre) (c' : Con) (h : preproO s.opts s.env c = .keep pre c') :
    s.assignBase c = s.finish pre (s.nested pre c') := by
  simp only [State.assignBase, h, State.nested]
  cases c' <;> rfl

/-! ### Round 6: semantic preservation of the conditional-(in)equality normalisation; assign-level theorems over all covered kinds -/

/-- value of the `std::map<int,double>` accumulator -/
def mapVal (val : Val) (m : List (Nat × Rat)) : Rat := (m.map fun kc => kc.2 * val kc.1).sum

theorem mapVal_accInsert (val : Val) (k : Nat) (c : Rat) (m : List (Nat × Rat)) :
    mapVal val (accInsert k c m) = mapVal val m + c * val k := by
  induction m with
  | nil => simp [accInsert, mapVal]
  | cons kc m ih =>
    obtain ⟨k', c'⟩ := kc
    simp only [accInsert]
    split_ifs with h1 h2
    · simp [mapVal]; ring
    · subst h2; simp [mapVal]; ring
    · simp only [mapVal, List.map_cons, List.sum_cons] at ih ⊢; rw [ih]; ring

theorem mapVal_foldl (val : Val) (ts : LinT) (m : List (Nat × Rat)) :
    mapVal val (ts.foldl (fun m t => if t.1 = 0 then m else accInsert t.2 t.1 m) m) = mapVal val m + linVal val ts := by
  induction ts generalizing m with
  | nil => simp [linVal]
  | cons t ts ih =>
    simp only [List.foldl_cons, linVal_cons]
    rw [ih]
    by_cases h : t.1 = 0
    · simp [h]
    · simp only [h, if_false, mapVal_accInsert]; ring

theorem mapVal_filter (val : Val) (m : List (Nat × Rat)) :
    linVal val ((m.filter (fun kc => kc.2 ≠ 0)).map (fun kc => (kc.2, kc.1))) = mapVal val m := by
  induction m with
  | nil => simp [linVal, mapVal]
  | cons kc m ih =>
    by_cases h : kc.2 = 0
    · simp only [List.filter_cons, h, ne_eq, not_true_eq_false, decide_false, Bool.false_eq_true, if_false]
      simp only [ne_eq] at ih
      rw [ih]; simp [mapVal, h]
    · simp only [List.filter_cons, ne_eq, h, not_false_eq_true, decide_true, if_true, List.map_cons, linVal_cons]
      simp only [ne_eq] at ih
      rw [ih]; simp [mapVal]

/-- **`LinTerms::sort_terms` preserves the value** of the linear body -/
theorem linVal_sortLin (val : Val) (ts : LinT) : linVal val (sortLin ts) = linVal val ts := by
  unfold sortLin
  simp only []
  split_ifs
  · rw [mapVal_filter, mapVal_foldl]; simp [mapVal]
  · rfl

theorem linVal_negLin (val : Val) (ts : LinT) : linVal val (negLin ts) = - linVal val ts := by
  induction ts with
  | nil => simp [negLin, linVal]
  | cons t ts ih => simp only [negLin, List.map_cons, linVal_cons] at ih ⊢; rw [ih]; ring

theorem accInsert_length (k : Nat) (c : Rat) (m : List (Nat × Rat)) : (accInsert k c m).length ≤ m.length + 1 := by
  induction m with
  | nil => simp [accInsert]
  | cons kc m ih =>
    obtain ⟨k', c'⟩ := kc
    simp only [accInsert]
    split_ifs <;> simp <;> omega

theorem foldl_length (ts : LinT) (m : List (Nat × Rat)) :
    (ts.foldl (fun m t => if t.1 = 0 then m else accInsert t.2 t.1 m) m).length ≤ m.length + (ts.filter (fun t => t.1 ≠ 0)).length := by
  induction ts generalizing m with
  | nil => simp
  | cons t ts ih =>
    simp only [List.foldl_cons]
    refine le_trans (ih _) ?_
    by_cases h : t.1 = 0
    · simp [h, List.filter_cons]
    · have := accInsert_length t.2 t.1 m
      simp [h, List.filter_cons]; omega

/-- after `sort_terms` no coefficient is zero -/
theorem sortLin_nonzero (ts : LinT) : ∀ t ∈ sortLin ts, t.1 ≠ 0 := by
  unfold sortLin
  simp only []
  split_ifs with h
  · intro t ht
    simp only [List.mem_map, List.mem_filter] at ht
    obtain ⟨kc, ⟨_, hk⟩, rfl⟩ := ht
    simpa using hk
  · intro t ht h0
    apply h
    have h1 := foldl_length ts []
    have h2 : (ts.filter (fun t => t.1 ≠ 0)).length < ts.length := by
      apply List.length_filter_lt_length_iff_exists.mpr
      exact ⟨t, ht, by simp [h0]⟩
    simp only [List.length_nil, Nat.zero_add] at h1
    omega

theorem cmpKind_neg (kind : Int) (hk : kind = -2 ∨ kind = -1 ∨ kind = 0 ∨ kind = 1 ∨ kind = 2) (b r : Rat) :
    cmpKind (-kind) (-b) (-r) = cmpKind kind b r := by
  rcases hk with rfl | rfl | rfl | rfl | rfl <;> simp [cmpKind] <;> norm_num



def KindOK (k : Int) : Prop := k = -2 ∨ k = -1 ∨ k = 0 ∨ k = 1 ∨ k = 2

/-- soundness of a decision that does not redirect; nothing is claimed when the model says `unsupported` / `raise` (the driver then
prints `unsupported` / `throw`, the state is unchanged) -/
def BaseSoundW (d : Decision) (c : Con) (val : Val) : Prop :=
  match d with
  | .keep pre c' => pre.Contains (c.eval tr trp val) ∧ c'.eval tr trp val = c.eval tr trp val
  | .alias v => val v = c.eval tr trp val
  | _ => True

/-- soundness of a decision, redirections included: the constraint converted instead has the same value and its own decision is sound -/
def DecSound (o : Opts) (e : Env) (d : Decision) (c : Con) (val : Val) : Prop :=
  match d with
  | .keep pre c' => pre.Contains (c.eval tr trp val) ∧ c'.eval tr trp val = c.eval tr trp val
  | .alias v => val v = c.eval tr trp val
  | .redirect c2 => c2.eval tr trp val = c.eval tr trp val ∧ BaseSoundW tr trp (preproO o e c2) c2 val
  | _ => True

theorem const_contains (r : Rat) : (({} : Pre).narrow (fin r) (fin r)).Contains r :=
  fresh_range_sound' (fin r) (fin r) r (Or.inr (by simp [lbOK])) (Or.inr (by simp [ubOK]))

/-- conditional linear inequality, non-redirecting part: empty body → constant truth value; normalised body → `[0,1]` INTEGER and the
stored constraint (terms sorted/merged by `sort_terms`, right-hand side rounded for an integer body) has the same truth value -/
theorem ineq_base (e : Env) (val : Val) (hf : Feasible e val) (kind : Int) (hk : kind = -2 ∨ kind = -1 ∨ kind = 1 ∨ kind = 2)
    (rhs : Rat) (ts : LinT) :
    BaseSoundW tr trp (preproCondLinIneq e kind rhs ts) (.clin kind rhs ts) val := by
  unfold preproCondLinIneq
  by_cases hemp : ts.isEmpty = true
  · simp only [hemp, if_true, BaseSoundW]
    have : ts = [] := List.isEmpty_iff.mp hemp
    subst this
    simp only [Con.eval, linVal, List.map_nil, List.sum_nil]
    exact ⟨const_contains _, trivial⟩
  · simp only [hemp, Bool.false_eq_true, if_false]
    cases hs : sortLin ts with
    | nil => simp [BaseSoundW]
    | cons t0 rest =>
      simp only []
      by_cases hpos : 0 < t0.1
      · simp only [hpos, if_true, BaseSoundW, Con.eval]
        refine ⟨preBool_contains_b2r _, ?_⟩
        have hsv : linVal val (t0 :: rest) = linVal val ts := by rw [← hs]; exact linVal_sortLin val ts
        rw [hsv]
        congr 1
        have hint : (boundsLin e (t0 :: rest)).int = true → IsInt (linVal val ts) := by
          intro hi; rw [← hsv]; exact (boundsLin_sound e val hf (t0 :: rest)).2.2 hi
        exact C06_round_rhs kind hk _ _ rhs hint
      · simp [hpos, BaseSoundW]

theorem ineq_dec (o : Opts) (e : Env) (val : Val) (hf : Feasible e val) (kind : Int)
    (hk : kind = -2 ∨ kind = -1 ∨ kind = 1 ∨ kind = 2) (rhs : Rat) (ts : LinT) :
    DecSound tr trp o e (preproCondLinIneq e kind rhs ts) (.clin kind rhs ts) val := by
  have hb := ineq_base tr trp e val hf kind hk rhs ts
  unfold preproCondLinIneq at hb ⊢
  by_cases hemp : ts.isEmpty = true
  · simp only [hemp, if_true] at hb ⊢; exact hb
  · simp only [hemp, Bool.false_eq_true, if_false] at hb ⊢
    cases hs : sortLin ts with
    | nil => simp [DecSound]
    | cons t0 rest =>
      rw [hs] at hb
      simp only [] at hb ⊢
      by_cases hpos : 0 < t0.1
      · simp only [hpos, if_true] at hb ⊢; exact hb
      · simp only [hpos, if_false, DecSound]
        have hk' : -kind = -2 ∨ -kind = -1 ∨ -kind = 1 ∨ -kind = 2 := by
          rcases hk with rfl | rfl | rfl | rfl <;> simp
        have hkne : ¬ (-kind = 0) := by rcases hk with rfl | rfl | rfl | rfl <;> simp
        refine ⟨?_, ?_⟩
        · simp only [Con.eval, linVal_negLin]
          have hsv : linVal val (t0 :: rest) = linVal val ts := by rw [← hs]; exact linVal_sortLin val ts
          rw [hsv]
          congr 1
          exact cmpKind_neg kind (by rcases hk with h | h | h | h <;> simp [h]) _ _
        · have : preproO o e (.clin (-kind) (-rhs) (negLin (t0 :: rest))) =
              preproCondLinIneq e (-kind) (-rhs) (negLin (t0 :: rest)) := by simp [preproO, hkne]
          rw [this]
          exact ineq_base tr trp e val hf (-kind) hk' (-rhs) _


theorem eq_unify (c x r : Rat) (hc : c ≠ 0) : cmpKind 0 (c * x) r = cmpKind 0 x (if c = 1 then r else r / c) := by
  simp only [cmpKind]
  by_cases h1 : c = 1
  · simp [h1]
  · simp only [h1, if_false]
    have : (c * x = r) ↔ (x = r / c) := by
      constructor
      · intro h; rw [← h]; field_simp
      · intro h; rw [h]; field_simp
    simp [this]

/-- conditional linear equality (`PreprocessConstraint(CondLinConEQ&)`, any setting of the options `cvt:pre:eqresult`, `cvt:pre:eqbinary`):
normalisation (sort_terms, sign flip), `FixEqualityResult`, `coef·x == rhs` → `x == rhs/coef`, reuse of a binary variable / its complement /
constant false — each keeps the truth value -/
theorem eq_dec (o : Opts) (e : Env) (val : Val) (hf : Feasible e val) (rhs : Rat) (ts : LinT) :
    DecSound tr trp o e (preproCondLinEQO o e rhs ts) (.clin 0 rhs ts) val := by
  unfold preproCondLinEQO
  by_cases hemp : ts.isEmpty = true
  · simp only [hemp, if_true, DecSound]
    have : ts = [] := List.isEmpty_iff.mp hemp
    subst this
    simp only [Con.eval, linVal, List.map_nil, List.sum_nil]
    exact ⟨const_contains _, trivial⟩
  · simp only [hemp, Bool.false_eq_true, if_false]
    cases hs : sortLin ts with
    | nil => simp [DecSound]
    | cons t0 rest =>
      simp only []
      have hsv : linVal val (t0 :: rest) = linVal val ts := by rw [← hs]; exact linVal_sortLin val ts
      have hnz : ∀ t ∈ (t0 :: rest), t.1 ≠ 0 := by rw [← hs]; exact sortLin_nonzero ts
      -- the normalised pair (ts2, rhs2) has the same truth value
      generalize hn : (if 0 < t0.1 then (t0 :: rest, rhs) else (negLin (t0 :: rest), -rhs)) = nrm
      obtain ⟨ts2, rhs2⟩ := nrm
      have hval : cmpKind 0 (linVal val ts2) rhs2 = cmpKind 0 (linVal val ts) rhs := by
        by_cases hpos : 0 < t0.1
        · simp only [hpos, if_true, Prod.mk.injEq] at hn; obtain ⟨rfl, rfl⟩ := hn; rw [hsv]
        · simp only [hpos, if_false, Prod.mk.injEq] at hn; obtain ⟨rfl, rfl⟩ := hn
          rw [linVal_negLin, hsv]; exact cmpKind_neg 0 (by simp) _ _
      have hnz2 : ∀ t ∈ ts2, t.1 ≠ 0 := by
        by_cases hpos : 0 < t0.1
        · simp only [hpos, if_true, Prod.mk.injEq] at hn; obtain ⟨rfl, rfl⟩ := hn; exact hnz
        · simp only [hpos, if_false, Prod.mk.injEq] at hn; obtain ⟨rfl, rfl⟩ := hn
          intro t ht; simp only [negLin, List.mem_map] at ht; obtain ⟨t', ht', rfl⟩ := ht
          simpa using hnz t' ht'
      simp only []
      cases hfix : (if o.eqResult = true then fixEqualityResult (boundsLin e ts2) rhs2 preBool else none) with
      | some p =>
        simp only [DecSound, Con.eval]
        have hfx : fixEqualityResult (boundsLin e ts2) rhs2 preBool = some p := by
          by_cases ho : o.eqResult = true
          · simpa [ho] using hfix
          · simp [ho] at hfix
        have := (C06_fix_equality (boundsLin e ts2) (linVal val ts2) rhs2 (boundsLin_sound e val hf ts2) p hfx).1
        rw [hval] at this
        exact ⟨this, by rw [hval]⟩
      | none =>
        simp only []
        -- single term: coef·v == rhs2
        match ts2, hval, hnz2 with
        | [(c, v)], hval, hnz2 =>
          have hc : c ≠ 0 := hnz2 (c, v) (by simp)
          have hlv : linVal val [(c, v)] = c * val v := by simp [linVal]
          have hu : cmpKind 0 (val v) (if c = 1 then rhs2 else rhs2 / c) = cmpKind 0 (linVal val ts) rhs := by
            rw [← hval, hlv]; exact (eq_unify c (val v) rhs2 hc).symm
          have hone : linVal val [((1 : Rat), v)] = val v := by simp [linVal]
          simp only []
          by_cases hbin : (o.eqBinVar && isBinaryVar e v) = true
          · simp only [hbin, if_true]
            rw [Bool.and_eq_true] at hbin
            have h01 := binary_val e val hf v hbin.2
            by_cases h1 : (if c = 1 then rhs2 else rhs2 / c) = 1
            · simp only [h1, if_true, DecSound, Con.eval]
              rw [← hu, h1]
              rcases h01 with h | h <;> simp [h, cmpKind, b2r]
            · simp only [h1, if_false]
              by_cases h0 : (if c = 1 then rhs2 else rhs2 / c) = 0
              · simp only [h0, if_true]
                by_cases hb01 : (ER.eq (e v).lb (fin 0) && ER.eq (e v).ub (fin 1)) = true
                · simp only [hb01, if_true, DecSound]
                  refine ⟨?_, ?_⟩
                  · have hl1 : linVal val [((-1 : Rat), v)] = -val v := by simp [linVal]
                    simp only [Con.eval, hl1]
                    rw [← hu, h0]
                    rcases h01 with h | h <;> simp [h, cmpKind, b2r]
                  · have : preproO o e (.lin 1 [(-1, v)]) = prepro e (.lin 1 [(-1, v)]) := rfl
                    rw [this]
                    obtain ⟨pre, hp, hcn⟩ := C06_lin tr trp e val hf 1 [(-1, v)]
                    rw [hp]; exact ⟨hcn, rfl⟩
                · simp [hb01, DecSound]
              · simp only [h0, if_false, DecSound, Con.eval, hone]
                have hfalse : cmpKind 0 (val v) (if c = 1 then rhs2 else rhs2 / c) = false := by
                  simp only [cmpKind]
                  rcases h01 with h | h
                  · rw [h]; simp; exact fun hh => h0 hh.symm
                  · rw [h]; simp; exact fun hh => h1 hh.symm
                rw [← hu, hfalse]
                exact ⟨pre00.1, rfl⟩
          · simp only [hbin, Bool.false_eq_true, if_false, DecSound, Con.eval, hone]
            rw [← hu]
            exact ⟨preBool_contains_b2r _, rfl⟩
        | [], hval, _ =>
          simp only [DecSound, Con.eval]; rw [hval]; exact ⟨preBool_contains_b2r _, rfl⟩
        | _ :: _ :: _, hval, _ =>
          simp only [DecSound, Con.eval]; rw [hval]; exact ⟨preBool_contains_b2r _, rfl⟩


def mapVal2 (val : Val) (m : List ((Nat × Nat) × Rat)) : Rat := (m.map fun kc => kc.2 * (val kc.1.1 * val kc.1.2)).sum

theorem mapVal2_accInsert (val : Val) (k : Nat × Nat) (c : Rat) (m : List ((Nat × Nat) × Rat)) :
    mapVal2 val (accInsert2 k c m) = mapVal2 val m + c * (val k.1 * val k.2) := by
  induction m with
  | nil => simp [accInsert2, mapVal2]
  | cons kc m ih =>
    obtain ⟨k', c'⟩ := kc
    simp only [accInsert2]
    split_ifs with h1 h2
    · simp [mapVal2]; ring
    · subst h2; simp [mapVal2]; ring
    · simp only [mapVal2, List.map_cons, List.sum_cons] at ih ⊢; rw [ih]; ring

theorem mapVal2_foldl (val : Val) (qs : QuadT) (m : List ((Nat × Nat) × Rat)) :
    mapVal2 val (qs.foldl (fun m t => if t.1 = 0 then m else
      accInsert2 (if t.2.1 < t.2.2 then (t.2.1, t.2.2) else (t.2.2, t.2.1)) t.1 m) m) = mapVal2 val m + quadVal val qs := by
  induction qs generalizing m with
  | nil => simp [quadVal]
  | cons t qs ih =>
    simp only [List.foldl_cons, quadVal_cons]
    rw [ih]
    by_cases h : t.1 = 0
    · simp [h]
    · simp only [h, if_false, mapVal2_accInsert]
      by_cases hlt : t.2.1 < t.2.2
      · simp only [hlt, if_true]; ring
      · simp only [hlt, if_false]; ring

theorem mapVal2_filter (val : Val) (m : List ((Nat × Nat) × Rat)) :
    quadVal val ((m.filter (fun kc => kc.2 ≠ 0)).map (fun kc => (kc.2, kc.1.1, kc.1.2))) = mapVal2 val m := by
  induction m with
  | nil => simp [quadVal, mapVal2]
  | cons kc m ih =>
    by_cases h : kc.2 = 0
    · simp only [List.filter_cons, h, ne_eq, not_true_eq_false, decide_false, Bool.false_eq_true, if_false]
      simp only [ne_eq] at ih
      rw [ih]; simp [mapVal2, h]
    · simp only [List.filter_cons, ne_eq, h, not_false_eq_true, decide_true, if_true, List.map_cons, quadVal_cons]
      simp only [ne_eq] at ih
      rw [ih]; simp [mapVal2]

/-- **`QuadTerms::sort_terms` preserves the value** (pairs ordered, equal pairs merged, zero terms dropped) -/
theorem quadVal_sortQuad (val : Val) (qs : QuadT) : quadVal val (sortQuad qs) = quadVal val qs := by
  unfold sortQuad
  simp only []
  rw [mapVal2_filter, mapVal2_foldl]; simp [mapVal2]

theorem quadVal_negQuad (val : Val) (qs : QuadT) : quadVal val (negQuad qs) = - quadVal val qs := by
  induction qs with
  | nil => simp [negQuad, quadVal]
  | cons t qs ih => simp only [negQuad, List.map_cons, quadVal_cons] at ih ⊢; rw [ih]; ring

theorem boundsQL_sound (e : Env) (val : Val) (hf : Feasible e val) (ts : LinT) (qs : QuadT) :
    (boundsQL e ts qs).ContainsW (linVal val ts + quadVal val qs) :=
  addBounds_sound _ _ _ _ (boundsLin_sound e val hf ts) (boundsQuadT_sound e val hf (productBounds_sound_all e val hf) qs)

/-- conditional quadratic equality -/
theorem qeq_dec (o : Opts) (e : Env) (val : Val) (hf : Feasible e val) (rhs : Rat) (ts : LinT) (qs : QuadT) :
    DecSound tr trp o e (preproCondQuadEQO o e rhs ts qs) (.cquad 0 rhs ts qs) val := by
  unfold preproCondQuadEQO
  by_cases hemp : (ts.isEmpty && qs.isEmpty) = true
  · simp only [hemp, if_true, DecSound]
    rw [Bool.and_eq_true] at hemp
    have h1 : ts = [] := List.isEmpty_iff.mp hemp.1
    have h2 : qs = [] := List.isEmpty_iff.mp hemp.2
    subst h1; subst h2
    simp only [Con.eval, linVal, quadVal, List.map_nil, List.sum_nil, add_zero]
    exact ⟨const_contains _, trivial⟩
  · simp only [hemp, Bool.false_eq_true, if_false]
    cases hfix : (if o.eqResult = true then fixEqualityResult (boundsQL e ts qs) rhs preBool else none) with
    | some p =>
      have hfx : fixEqualityResult (boundsQL e ts qs) rhs preBool = some p := by
        by_cases ho : o.eqResult = true
        · simpa [ho] using hfix
        · simp [ho] at hfix
      simp only [DecSound, Con.eval]
      exact ⟨(C06_fix_equality (boundsQL e ts qs) _ rhs (boundsQL_sound e val hf ts qs) p hfx).1, trivial⟩
    | none => simp only [DecSound, Con.eval]; exact ⟨preBool_contains_b2r _, trivial⟩

/-- conditional quadratic inequality, non-redirecting part -/
theorem qineq_base (e : Env) (val : Val) (hf : Feasible e val) (kind : Int) (hk : kind = -2 ∨ kind = -1 ∨ kind = 1 ∨ kind = 2)
    (rhs : Rat) (ts : LinT) (qs : QuadT) :
    BaseSoundW tr trp (preproCondQuadIneq e kind rhs ts qs) (.cquad kind rhs ts qs) val := by
  unfold preproCondQuadIneq
  by_cases hemp : (ts.isEmpty && qs.isEmpty) = true
  · simp only [hemp, if_true, BaseSoundW]
    rw [Bool.and_eq_true] at hemp
    have h1 : ts = [] := List.isEmpty_iff.mp hemp.1
    have h2 : qs = [] := List.isEmpty_iff.mp hemp.2
    subst h1; subst h2
    simp only [Con.eval, linVal, quadVal, List.map_nil, List.sum_nil, add_zero]
    exact ⟨const_contains _, trivial⟩
  · simp only [hemp, Bool.false_eq_true, if_false]
    have hsv : linVal val (sortLin ts) + quadVal val (sortQuad qs) = linVal val ts + quadVal val qs := by
      rw [linVal_sortLin, quadVal_sortQuad]
    have hkeep : BaseSoundW tr trp (.keep preBool (.cquad kind (roundRhs kind (boundsQL e (sortLin ts) (sortQuad qs)).int rhs)
        (sortLin ts) (sortQuad qs))) (.cquad kind rhs ts qs) val := by
      simp only [BaseSoundW, Con.eval]
      refine ⟨preBool_contains_b2r _, ?_⟩
      rw [hsv]; congr 1
      exact C06_round_rhs kind hk _ _ rhs (fun hi => by
        rw [← hsv]; exact (boundsQL_sound e val hf (sortLin ts) (sortQuad qs)).2.2 hi)
    cases hs : sortLin ts with
    | nil =>
      cases hq : sortQuad qs with
      | nil => simp [BaseSoundW]
      | cons q0 qrest =>
        simp only []
        by_cases hpos : 0 < q0.1
        · simp only [hpos, decide_true]; rw [hs, hq] at hkeep; exact hkeep
        · simp [hpos, BaseSoundW]
    | cons t0 rest =>
      simp only []
      by_cases hpos : 0 < t0.1
      · simp only [hpos, decide_true]; rw [hs] at hkeep; exact hkeep
      · simp [hpos, BaseSoundW]

theorem qineq_dec (o : Opts) (e : Env) (val : Val) (hf : Feasible e val) (kind : Int)
    (hk : kind = -2 ∨ kind = -1 ∨ kind = 1 ∨ kind = 2) (rhs : Rat) (ts : LinT) (qs : QuadT) :
    DecSound tr trp o e (preproCondQuadIneq e kind rhs ts qs) (.cquad kind rhs ts qs) val := by
  have hb := qineq_base tr trp e val hf kind hk rhs ts qs
  -- keep/alias/unsupported are the same predicate; only a redirect needs more
  cases hd : preproCondQuadIneq e kind rhs ts qs with
  | keep pre c' => rw [hd] at hb; exact hb
  | «alias» v => rw [hd] at hb; exact hb
  | raise w => simp [DecSound]
  | unsupported => simp [DecSound]
  | redirect c2 =>
    -- the only redirect: the negated constraint
    have hc2 : c2 = .cquad (-kind) (-rhs) (negLin (sortLin ts)) (negQuad (sortQuad qs)) := by
      unfold preproCondQuadIneq at hd
      split_ifs at hd
      simp only [] at hd
      split at hd <;> first | (cases hd; done) | (cases hd; rfl) | (injection hd with hd; exact hd.symm)
    subst hc2
    have hk' : -kind = -2 ∨ -kind = -1 ∨ -kind = 1 ∨ -kind = 2 := by rcases hk with rfl | rfl | rfl | rfl <;> simp
    have hkne : ¬ (-kind = 0) := by rcases hk with rfl | rfl | rfl | rfl <;> simp
    simp only [DecSound]
    refine ⟨?_, ?_⟩
    · simp only [Con.eval, linVal_negLin, quadVal_negQuad, linVal_sortLin, quadVal_sortQuad]
      have : -linVal val ts + -quadVal val qs = -(linVal val ts + quadVal val qs) := by ring
      rw [this]; congr 1
      exact cmpKind_neg kind (by rcases hk with h | h | h | h <;> simp [h]) _ _
    · have : preproO o e (.cquad (-kind) (-rhs) (negLin (sortLin ts)) (negQuad (sortQuad qs))) =
          preproCondQuadIneq e (-kind) (-rhs) (negLin (sortLin ts)) (negQuad (sortQuad qs)) := by simp [preproO, hkne]
      rw [this]
      exact qineq_base tr trp e val hf (-kind) hk' (-rhs) _ _


/-- constraint kinds covered by the assign-level and history theorems: everything the model handles except `log` / `log_a` (argument
narrowing) and negative / fractional exponents -/
def Covered : Con → Prop
  | .pow _ p => p.den = 1
  | .min as => as ≠ []
  | .max as => as ≠ []
  | .nvar as => as ≠ []
  | .un f _ => f ≠ .log
  | .unp f _ _ => f = .expa
  | .clin k _ _ => KindOK k
  | .cquad k _ _ _ => KindOK k
  | _ => True

theorem covered_of' {c : Con} (h : Covered c) (hc : ∀ k r ts, c ≠ .clin k r ts) (hq : ∀ k r ts qs, c ≠ .cquad k r ts qs) : CoveredBase c := by
  cases c <;> first | exact h | exact (hc _ _ _ rfl).elim | exact (hq _ _ _ _ rfl).elim

theorem decSound_of_old (o : Opts) (e : Env) (d : Decision) (c : Con) (val : Val) (hf : Feasible e val)
    (h : DecisionSound tr trp d c val) : DecSound tr trp o e d c val := by
  cases d with
  | keep pre c' => exact h
  | «alias» v => exact h
  | redirect c2 =>
    obtain ⟨heq, c0, ts, rfl⟩ := h
    refine ⟨heq, ?_⟩
    have : preproO o e (.lin c0 ts) = prepro e (.lin c0 ts) := rfl
    rw [this]
    obtain ⟨pre, hpp, hc⟩ := C06_lin tr trp e val hf c0 ts
    rw [hpp]; exact ⟨hc, rfl⟩
  | raise w => trivial
  | unsupported => trivial

/-- **every covered kind, any option setting**: the decision `PreprocessConstraint` takes is sound at every feasible valuation -/
theorem decision_sound (o : Opts) (e : Env) (c : Con) (val : Val) (hcov : Covered c) (hadm : Adm e c) (htr : TrRange tr trp)
    (hf : Feasible e val) : DecSound tr trp o e (preproO o e c) c val := by
  by_cases hcl : (∃ k r ts, c = .clin k r ts) ∨ (∃ k r ts qs, c = .cquad k r ts qs)
  · rcases hcl with ⟨k, rhs, ts, rfl⟩ | ⟨k, rhs, ts, qs, rfl⟩
    · by_cases h0 : k = 0
      · subst h0; simp only [preproO, if_true]; exact eq_dec tr trp o e val hf rhs ts
      · simp only [preproO, h0, if_false]
        exact ineq_dec tr trp o e val hf k (by rcases hcov with h | h | h | h | h <;> simp_all) rhs ts
    · by_cases h0 : k = 0
      · subst h0; simp only [preproO, if_true]; exact qeq_dec tr trp o e val hf rhs ts qs
      · simp only [preproO, h0, if_false]
        exact qineq_dec tr trp o e val hf k (by rcases hcov with h | h | h | h | h <;> simp_all) rhs ts qs
  · have hold_cov : CoveredBase c := covered_of' hcov (fun k r ts h => hcl (Or.inl ⟨k, r, ts, h⟩)) (fun k r ts qs h => hcl (Or.inr ⟨k, r, ts, qs, h⟩))
    rw [preproO_eq o e c hold_cov]
    exact decSound_of_old tr trp o e _ c val hf (prepro_sound tr trp e c val hold_cov hadm htr hf)


theorem argNarrowing_none' (e : Env) (c : Con) (hcov : Covered c) : argNarrowing e c = none := by
  cases c with
  | un f a => cases f <;> first | rfl | exact absurd rfl hcov
  | unp f a p => cases hcov; rfl
  | _ => rfl

/-- `AssignResultVar2Args` of a `finish`: the variable finally returned has the value of the stored constraint -/
theorem redirect_outcome (s : State) (P : Pre) (K : Con) (val : Val) (x : Rat) (hwf : s.WF) (hfix : FixedOK s)
    (hcont : P.Contains x) (hcon : K.eval tr trp val = x) (v : Nat)
    (hf : Feasible (State.resultVar (s.finish P K)).1.env val) (hd : DefsHold tr trp (State.resultVar (s.finish P K)).1 val)
    (hr : (State.resultVar (s.finish P K)).2 = some v) : val v = x := by
  obtain ⟨h1, h2⟩ := C06_finish_sound tr trp s P K val x hwf hcont hcon
  have hvar : ∀ v, (s.finish P K).2 = .var v → val v = x := by
    intro v h
    apply h2 v h
    have : (State.resultVar (s.finish P K)).1 = (s.finish P K).1 := by simp [State.resultVar, h]
    rw [← this]; exact hd
  have hst : ∀ c, (s.finish P K).2 = .const c → FixedOK (s.finish P K).1 := by
    intro c h
    have : (s.finish P K).1 = s := by
      rw [finish_eq] at h ⊢
      by_cases hc : P.isConstant = true
      · simp [hc]
      · simp only [hc] at h ⊢
        cases hm : s.mapFind K <;> simp [hm] at h
    rw [this]; exact hfix
  exact C06_resultVar_sound (s.finish P K).1 (s.finish P K).2 val x hst h1 hvar v hf hr

/-- **one conversion step keeps "no value is cut off"** — every covered kind, conditional comparisons included, any option setting -/
theorem assign_bounds (s : State) (c : Con) (hwf : s.WF) (hb : BoundsSound tr trp s) (hcov : Covered c) (hadm : Adm s.env c)
    (htr : TrRange tr trp) :
    BoundsSound tr trp (s.assign c).1 ∧ (s.assign c).1.WF ∧ (s.assign c).1.opts = s.opts := by
  have hdec := fun val hf => decision_sound tr trp s.opts s.env c val hcov hadm htr hf
  have han := argNarrowing_none' s.env c hcov
  cases hd : preproO s.opts s.env c with
  | keep pre c' =>
    have hassign : s.assign c = s.finish pre (s.nested pre c') := by
      rw [← assignBase_keep s c pre c' hd]
      simp only [State.assign, han, hd]
    rw [hassign]
    refine finish_bounds tr trp s pre _ hwf hb ?_
    intro val hf hds
    have := hdec val hf
    rw [hd] at this
    rw [nested_eval tr trp s pre c' val hds, this.2]
    exact this.1
  | «alias» v =>
    have : s.assign c = (s, .var v) := by simp only [State.assign, han, hd, State.assignBase]
    rw [this]; exact ⟨hb, hwf, rfl⟩
  | redirect c2 =>
    have hassign : (s.assign c).1 = (State.resultVar (s.assignBase c2)).1 := by
      simp only [State.assign, han, hd]
      cases (State.resultVar (s.assignBase c2)).2 <;> rfl
    rw [hassign]
    cases hd2 : preproO s.opts s.env c2 with
    | keep pre2 c2' =>
      rw [assignBase_keep s c2 pre2 c2' hd2]
      have h1 := finish_bounds tr trp s pre2 (s.nested pre2 c2') hwf hb (fun val hf hds => by
        have := hdec val hf
        rw [hd] at this
        have hb2 := this.2
        rw [hd2] at hb2
        rw [nested_eval tr trp s pre2 c2' val hds, hb2.2]; exact hb2.1)
      have h2 := resultVar_bounds tr trp (s.finish pre2 (s.nested pre2 c2')).1 (s.finish pre2 (s.nested pre2 c2')).2 h1.2.1 h1.1
      exact ⟨h2.1, h2.2.1, by rw [h2.2.2, h1.2.2]⟩
    | «alias» v2 =>
      have : s.assignBase c2 = (s, .var v2) := by simp only [State.assignBase, hd2]
      rw [this]; exact ⟨hb, hwf, rfl⟩
    | redirect c3 =>
      have : s.assignBase c2 = (s, .unsupported) := by simp only [State.assignBase, hd2]
      rw [this]; exact ⟨hb, hwf, rfl⟩
    | raise w =>
      have : s.assignBase c2 = (s, .unsupported) := by simp only [State.assignBase, hd2]
      rw [this]; exact ⟨hb, hwf, rfl⟩
    | unsupported =>
      have : s.assignBase c2 = (s, .unsupported) := by simp only [State.assignBase, hd2]
      rw [this]; exact ⟨hb, hwf, rfl⟩
  | raise w =>
    have : s.assign c = (s, .throw w) := by simp only [State.assign, han, hd]
    rw [this]; exact ⟨hb, hwf, rfl⟩
  | unsupported =>
    have : s.assign c = (s, .unsupported) := by simp only [State.assign, han, hd]
    rw [this]; exact ⟨hb, hwf, rfl⟩

/-- **assign-level soundness, every covered kind** (round 6: conditional linear and quadratic (in)equalities included, any option setting) (`FlatConverter::AssignResult2Args` as the driver runs it): composition of the
per-kind preprocessing theorems with `C06_finish_sound` / `C06_resultVar_sound`.
(1) the converter state keeps the invariant "no value is cut off" (`BoundsSound`: every defined variable lies in its recorded
bounds and type whenever the undefined ones lie in theirs and all definitions hold), stays well-formed, options unchanged;
(2) whatever is returned — constant, existing variable (alias or map hit), new result variable — has the value of the expression
in every valuation feasible for the state before and after the call and satisfying the definitions. -/
theorem C06_assign_sound (s : State) (c : Con) (hwf : s.WF) (hfix : FixedOK s) (hb : BoundsSound tr trp s)
    (hcov : Covered c) (hadm : Adm s.env c) (htr : TrRange tr trp) :
    (BoundsSound tr trp (s.assign c).1 ∧ (s.assign c).1.WF ∧ (s.assign c).1.opts = s.opts) ∧
    ∀ val, Feasible s.env val → DefsHold tr trp s val → Feasible (s.assign c).1.env val → DefsHold tr trp (s.assign c).1 val →
      (∀ k, (s.assign c).2 = .const k → k = fin (Con.eval tr trp val c)) ∧
      (∀ v, (s.assign c).2 = .var v → val v = Con.eval tr trp val c) := by
  refine ⟨assign_bounds tr trp s c hwf hb hcov hadm htr, ?_⟩
  intro val hf0 hd0 hf hd
  have hdec := decision_sound tr trp s.opts s.env c val hcov hadm htr hf0
  have han := argNarrowing_none' s.env c hcov
  cases hdc : preproO s.opts s.env c with
  | keep pre c' =>
    have hassign : s.assign c = s.finish pre (s.nested pre c') := by
      rw [← assignBase_keep s c pre c' hdc]
      simp only [State.assign, han, hdc]
    rw [hdc] at hdec
    rw [hassign] at hd ⊢
    obtain ⟨h1, h2⟩ := C06_finish_sound tr trp s pre (s.nested pre c') val _ hwf hdec.1
      (by rw [nested_eval tr trp s pre c' val hd0, hdec.2])
    exact ⟨h1, fun v h => h2 v h hd⟩
  | «alias» v =>
    have : s.assign c = (s, .var v) := by simp only [State.assign, han, hdc, State.assignBase]
    rw [hdc] at hdec
    rw [this]
    exact ⟨fun k h => (by cases h), fun v' h => (by injection h with h; subst h; exact hdec)⟩
  | redirect c2 =>
    rw [hdc] at hdec
    obtain ⟨heq, hb2⟩ := hdec
    have hassign : s.assign c = (match (State.resultVar (s.assignBase c2)).2 with
        | some v => ((State.resultVar (s.assignBase c2)).1, Res.var v)
        | none => ((State.resultVar (s.assignBase c2)).1, Res.unsupported)) := by
      simp only [State.assign, han, hdc]
      rfl
    rw [hassign] at hf hd ⊢
    cases hrv : (State.resultVar (s.assignBase c2)).2 with
    | none => simp only [hrv]; exact ⟨fun k h => (by cases h), fun v h => (by cases h)⟩
    | some v' =>
      simp only [hrv] at hf hd ⊢
      refine ⟨fun k h => (by cases h), fun v h => ?_⟩
      injection h with h; subst h
      rw [← heq]
      cases hd2 : preproO s.opts s.env c2 with
      | keep pre2 c2' =>
        rw [hd2] at hb2
        rw [assignBase_keep s c2 pre2 c2' hd2] at hf hd hrv
        exact redirect_outcome tr trp s pre2 (s.nested pre2 c2') val _ hwf hfix hb2.1
          (by rw [nested_eval tr trp s pre2 c2' val hd0, hb2.2]) v' hf hd hrv
      | «alias» v2 =>
        rw [hd2] at hb2
        have : s.assignBase c2 = (s, .var v2) := by simp only [State.assignBase, hd2]
        rw [this] at hrv
        simp only [State.resultVar] at hrv
        injection hrv with hrv; subst hrv; exact hb2
      | redirect c3 =>
        have : s.assignBase c2 = (s, .unsupported) := by simp only [State.assignBase, hd2]
        rw [this] at hrv; simp [State.resultVar] at hrv
      | raise w =>
        have : s.assignBase c2 = (s, .unsupported) := by simp only [State.assignBase, hd2]
        rw [this] at hrv; simp [State.resultVar] at hrv
      | unsupported =>
        have : s.assignBase c2 = (s, .unsupported) := by simp only [State.assignBase, hd2]
        rw [this] at hrv; simp [State.resultVar] at hrv
  | raise w =>
    have : s.assign c = (s, .throw w) := by simp only [State.assign, han, hdc]
    rw [this]; exact ⟨fun k h => (by cases h), fun v h => (by cases h)⟩
  | unsupported =>
    have : s.assign c = (s, .unsupported) := by simp only [State.assign, han, hdc]
    rw [this]; exact ⟨fun k h => (by cases h), fun v h => (by cases h)⟩


/-- **`sort_terms` (linear and quadratic) and negation preserve the value of a constraint body** — the normalisation steps of the
conditional comparisons (`src/std_constr.cc` `LinTerms::sort_terms`, `QuadTerms::sort_terms`; `negate()`), for all term lists
(duplicates, zero coefficients, unordered pairs) and all valuations. -/
theorem C06_sort_terms_preserve (val : Val) (ts : LinT) (qs : QuadT) :
    linVal val (sortLin ts) = linVal val ts ∧ quadVal val (sortQuad qs) = quadVal val qs ∧
    linVal val (negLin ts) = - linVal val ts ∧ quadVal val (negQuad qs) = - quadVal val qs ∧
    (∀ t ∈ sortLin ts, t.1 ≠ 0) :=
  ⟨linVal_sortLin val ts, quadVal_sortQuad val qs, linVal_negLin val ts, quadVal_negQuad val qs, sortLin_nonzero ts⟩

/-- **conditional comparisons** `body <cmp> rhs` with `<cmp>` ∈ {<, ≤, =, ≥, >}, linear or quadratic body, any option setting: whatever
`PreprocessConstraint` decides — constant truth value for an empty body, `[0,1]` INTEGER with the normalised constraint (sorted/merged
terms, sign flip of equalities, right-hand side rounded for integer bodies incl. strict comparisons, `coef·x == rhs` → `x == rhs/coef`),
`FixEqualityResult`, reuse of a binary variable or its complement, redirection to the negated (normalised) comparison — the bounds
contain the truth value and the constraint stored / converted instead has the same truth value at every feasible valuation. -/
theorem C06_cond (o : Opts) (e : Env) (val : Val) (hf : Feasible e val) (htr : TrRange tr trp) (k : Int) (hk : KindOK k)
    (rhs : Rat) (ts : LinT) (qs : QuadT) :
    DecSound tr trp o e (preproO o e (.clin k rhs ts)) (.clin k rhs ts) val ∧
    DecSound tr trp o e (preproO o e (.cquad k rhs ts qs)) (.cquad k rhs ts qs) val :=
  ⟨decision_sound tr trp o e (.clin k rhs ts) val hk trivial htr hf,
   decision_sound tr trp o e (.cquad k rhs ts qs) val hk trivial htr hf⟩

/-- one operation as the harness / driver run it: `AssignResult2Args`, then a constant result is turned into a fixed variable -/
def stepOp (s : State) (c : Con) : State := (State.resultVar (s.assign c)).1
def runOps (s : State) : List Con → State
  | [] => s
  | c :: cs => runOps (stepOp s c) cs
/-- every operation is of a covered kind and admissible in the state it is applied to -/
def AdmOps (s : State) : List Con → Prop
  | [] => True
  | c :: cs => Covered c ∧ Adm s.env c ∧ AdmOps (stepOp s c) cs

/-- a state without defining constraints (the original variables) satisfies the invariant -/
theorem C06_initial_sound (s : State) (h : ∀ i, s.defs.getD i none = none) : BoundsSound tr trp s :=
  fun _ hfree _ i hi => hfree i hi (h i)

/-- **history theorem**: every converter state reachable from a sound state by ANY sequence of covered operations keeps all
recorded bounds and types sound (no value of any defined variable is ever cut off) — induction over the operation list. -/
theorem C06_history_sound (htr : TrRange tr trp) (ops : List Con) :
    ∀ s : State, s.WF → BoundsSound tr trp s → AdmOps s ops →
      BoundsSound tr trp (runOps s ops) ∧ (runOps s ops).WF := by
  induction ops with
  | nil => intro s hwf hb _; exact ⟨hb, hwf⟩
  | cons c cs ih =>
    intro s hwf hb hadm
    obtain ⟨hcov, ha, hrest⟩ := hadm
    obtain ⟨h1, h2, _⟩ := assign_bounds tr trp s c hwf hb hcov ha htr
    obtain ⟨h3, h4, _⟩ := resultVar_bounds tr trp (s.assign c).1 (s.assign c).2 h2 h1
    exact ih (stepOp s c) h4 h3 hrest

/-! ### Round 8: the fixed-variable map in the history invariant -/

/-- invariant of `map_fixed_vars_`: every entry names an existing variable whose bounds are both the key -/
def FixedInv (s : State) : Prop :=
  ∀ kv ∈ s.fixed, kv.2 < s.vars.size ∧ (s.env kv.2).lb = kv.1 ∧ (s.env kv.2).ub = kv.1

theorem fixedOK_of_inv (s : State) (h : FixedInv s) : FixedOK s := fun kv hk => (h kv hk).2

theorem pushDef_fixedInv (s : State) (b : VarB) (con : Con) (h : FixedInv s) : FixedInv (s.pushDef b con) := by
  intro kv hk
  have hk' : kv ∈ s.fixed := hk
  obtain ⟨h1, h2, h3⟩ := h kv hk'
  refine ⟨?_, ?_, ?_⟩
  · simp only [State.pushDef, Array.size_push]; omega
  · rw [pushDef_env_lt s b con kv.2 h1]; exact h2
  · rw [pushDef_env_lt s b con kv.2 h1]; exact h3

theorem pushFixed_env_eq (s : State) (k : ER) : (s.pushFixed k).env s.vars.size = { lb := k, ub := k, int := false } := by
  simp only [State.env, State.pushFixed]; exact getD_push_eq _ _ _

theorem pushFixed_fixedInv (s : State) (k : ER) (h : FixedInv s) : FixedInv (s.pushFixed k) := by
  intro kv hk
  have hk' : kv = (k, s.vars.size) ∨ kv ∈ s.fixed := by simpa [State.pushFixed] using hk
  rcases hk' with rfl | hk'
  · refine ⟨by simp [State.pushFixed], ?_, ?_⟩ <;> simp only [] <;> rw [pushFixed_env_eq]
  · obtain ⟨h1, h2, h3⟩ := h kv hk'
    refine ⟨by simp only [State.pushFixed, Array.size_push]; omega, ?_, ?_⟩
    · rw [pushFixed_env_lt s k kv.2 h1]; exact h2
    · rw [pushFixed_env_lt s k kv.2 h1]; exact h3

theorem finish_fixedInv (s : State) (pre : Pre) (con : Con) (h : FixedInv s) : FixedInv (s.finish pre con).1 := by
  rw [finish_eq]
  by_cases hc : pre.isConstant = true
  · simp only [hc, if_true]; exact h
  · simp only [hc]
    cases s.mapFind con with
    | some v => exact h
    | none => exact pushDef_fixedInv s _ con h

theorem makeFixed_fixedInv (s : State) (k : ER) (h : FixedInv s) : FixedInv (s.makeFixedVar k).1 := by
  rw [makeFixed_eq]
  cases s.fixed.find? (fun kv => eq kv.1 k) with
  | some kv => exact h
  | none => exact pushFixed_fixedInv s k h

theorem resultVar_fixedInv (s : State) (r : Res) (h : FixedInv s) : FixedInv (State.resultVar (s, r)).1 := by
  cases r with
  | const k => simp only [State.resultVar]; exact makeFixed_fixedInv s k h
  | var v => exact h
  | throw w => exact h
  | unsupported => exact h

theorem assignBase_fixedInv (s : State) (c : Con) (h : FixedInv s) : FixedInv (s.assignBase c).1 := by
  cases hd : preproO s.opts s.env c with
  | keep pre c' => rw [assignBase_keep s c pre c' hd]; exact finish_fixedInv s pre _ h
  | «alias» v => simp only [State.assignBase, hd]; exact h
  | redirect c2 => simp only [State.assignBase, hd]; exact h
  | raise w => simp only [State.assignBase, hd]; exact h
  | unsupported => simp only [State.assignBase, hd]; exact h

/-- `AssignResult2Args` keeps the fixed-variable map consistent (every covered kind: no argument narrowing) -/
theorem assign_fixedInv (s : State) (c : Con) (hcov : Covered c) (h : FixedInv s) : FixedInv (s.assign c).1 := by
  have han := argNarrowing_none' s.env c hcov
  cases hd : preproO s.opts s.env c with
  | keep pre c' =>
    have : s.assign c = s.assignBase c := by simp only [State.assign, han, hd]
    rw [this]; exact assignBase_fixedInv s c h
  | «alias» v =>
    have : s.assign c = s.assignBase c := by simp only [State.assign, han, hd]
    rw [this]; exact assignBase_fixedInv s c h
  | redirect c2 =>
    have : (s.assign c).1 = (State.resultVar (s.assignBase c2)).1 := by
      simp only [State.assign, han, hd]
      cases (State.resultVar (s.assignBase c2)).2 <;> rfl
    rw [this]
    exact resultVar_fixedInv (s.assignBase c2).1 (s.assignBase c2).2 (assignBase_fixedInv s c2 h)
  | raise w =>
    have : s.assign c = (s, .throw w) := by simp only [State.assign, han, hd]
    rw [this]; exact h
  | unsupported =>
    have : s.assign c = (s, .unsupported) := by simp only [State.assign, han, hd]
    rw [this]; exact h

/-- **history theorem, complete invariant**: every converter state reachable from a state that is well-formed, sound (`BoundsSound`) and
has a consistent fixed-variable map (`FixedInv`; trivially true for the original variables: the map is empty) by ANY list of covered
operations is again well-formed, sound and consistent.  In particular the hypothesis `FixedOK` of `C06_assign_sound` holds in every
reachable state, so its outcome clause applies to every further operation without extra assumptions. -/
theorem C06_history_invariant (htr : TrRange tr trp) (ops : List Con) :
    ∀ s : State, s.WF → BoundsSound tr trp s → FixedInv s → AdmOps s ops →
      BoundsSound tr trp (runOps s ops) ∧ (runOps s ops).WF ∧ FixedInv (runOps s ops) ∧ FixedOK (runOps s ops) := by
  induction ops with
  | nil => intro s hwf hb hfi _; exact ⟨hb, hwf, hfi, fixedOK_of_inv s hfi⟩
  | cons c cs ih =>
    intro s hwf hb hfi hadm
    obtain ⟨hcov, ha, hrest⟩ := hadm
    obtain ⟨h1, h2, _⟩ := assign_bounds tr trp s c hwf hb hcov ha htr
    obtain ⟨h3, h4, _⟩ := resultVar_bounds tr trp (s.assign c).1 (s.assign c).2 h2 h1
    have h5 : FixedInv (stepOp s c) := resultVar_fixedInv (s.assign c).1 (s.assign c).2 (assign_fixedInv s c hcov hfi)
    exact ih (stepOp s c) h4 h3 h5 hrest

/-- **every step of every history**: after any list of covered operations, a further covered operation keeps the invariant and what it
returns equals the expression — `C06_assign_sound` with all its state hypotheses discharged by `C06_history_invariant`. -/
theorem C06_history_step_sound (htr : TrRange tr trp) (ops : List Con) (s : State) (hwf : s.WF) (hb : BoundsSound tr trp s)
    (hfi : FixedInv s) (hadm : AdmOps s ops) (c : Con) (hcov : Covered c) (ha : Adm (runOps s ops).env c) :
    ∀ val, Feasible (runOps s ops).env val → DefsHold tr trp (runOps s ops) val →
      Feasible ((runOps s ops).assign c).1.env val → DefsHold tr trp ((runOps s ops).assign c).1 val →
      (∀ k, ((runOps s ops).assign c).2 = .const k → k = fin (Con.eval tr trp val c)) ∧
      (∀ v, ((runOps s ops).assign c).2 = .var v → val v = Con.eval tr trp val c) := by
  obtain ⟨h1, h2, _, h4⟩ := C06_history_invariant tr trp htr ops s hwf hb hfi hadm
  exact (C06_assign_sound tr trp (runOps s ops) c h2 h4 h1 hcov ha htr).2

/-- **division, guard**: whenever `PreprocessConstraint(DivConstraint&)` infers anything (its result differs from the default
`(−∞, +∞)`), the divisor's box excludes 0, so `val b ≠ 0` at every feasible valuation: `C06_div` never relies on Lean's
totalised `x / 0 = 0` (in the branch that infers nothing, the default bounds contain every value). -/
theorem C06_div_guard (e : Env) (val : Val) (h : Feasible e val) (a b : Nat) (hne : preproDiv e a b ≠ {}) : val b ≠ 0 := by
  obtain ⟨hyl, hyu, _⟩ := h b
  unfold preproDiv at hne
  simp only [] at hne
  split at hne
  · next hcond =>
    simp only [Bool.and_eq_true] at hcond
    obtain ⟨⟨⟨⟨_, _⟩, c3⟩, c4⟩, c5⟩ := hcond
    obtain ⟨c, hc⟩ := fin_of_lb_gt hyl c3
    obtain ⟨d, hd⟩ := fin_of_ub_lt hyu c4
    rw [hc] at hyl c5; rw [hd] at hyu c5
    simp only [lbOK, ubOK] at hyl hyu
    simp only [mul, ER.lt, decide_eq_true_eq] at c5
    rcases pos_and_pos_or_neg_and_neg_of_mul_pos c5 with ⟨hcp, _⟩ | ⟨_, hdn⟩
    · exact ne_of_gt (lt_of_lt_of_le hcp hyl)
    · exact ne_of_lt (lt_of_le_of_lt hyu hdn)
  · exact absurd rfl hne

/-- **piecewise-linear**: the `PreprocessConstraint(PLConstraint&)` overload translated from the source is empty — no bounds, no
type, no result variable are inferred, so the result variable keeps the default `(−∞, +∞)` CONTINUOUS, which contains every
value (nothing can be cut off; nothing tighter — e.g. the range of the breakpoints' y values — is computed by the code). -/
theorem C06_pl (e : Env) (args : List Nat) (prm : List Rat) (x : Rat) :
    (MpVerif.Gen.C06.prepro_PL e args prm).pre = {} ∧ (MpVerif.Gen.C06.prepro_PL e args prm).rv = none ∧
    (MpVerif.Gen.C06.prepro_PL e args prm).narrow = [] ∧ (MpVerif.Gen.C06.prepro_PL e args prm).pre.Contains x :=
  ⟨rfl, rfl, rfl, default_contains x⟩

/-- **fractional exponent, negative lower bound**: nothing is inferred (`(!pow_int && lbx_neg)` branch), so nothing is cut off.
(For `lb ≥ 0` the code takes `[pow(lb,p), pow(ub,p)]` by monotonicity; that case has NO theorem — irrational values are
outside the `Rat` semantics — and is checked by correspondence on exact cases and by the sampling oracle only.) -/
theorem C06_pow_frac_skip (e : Env) (a : Nat) (p : Rat) (hp : ratIsInt p = false) (hneg : lt (e a).lb (fin 0) = true) :
    preproPow e a p = .keep {} (.pow a p) := by
  have h0 : p ≠ 0 := by intro h; rw [h] at hp; simp [ratIsInt] at hp
  have h1 : p ≠ 1 := by intro h; rw [h] at hp; simp [ratIsInt] at hp
  simp [preproPow, h0, h1, hp, hneg]


/-! ## non-vacuity: concrete non-trivial instances of the hypotheses used by the theorems above -/

/-- a box environment with a zero-crossing integer variable, a half-infinite continuous one and a binary one -/
def exEnv : Env := fun i =>
  if i = 0 then { lb := fin (-3), ub := fin 5, int := true }
  else if i = 1 then { lb := fin (1 / 2), ub := pinf, int := false }
  else { lb := fin 0, ub := fin 1, int := true }
def exVal : Val := fun i => if i = 0 then -2 else if i = 1 then 7 / 2 else 1

/-- `Feasible` (hypothesis of C06_lin, C06_abs, C06_min/max, C06_ifthen, C06_div, C06_pow_*, C06_and/or, …) is satisfiable by a
non-trivial box (negative/positive/infinite bounds, mixed types) -/
example : Feasible exEnv exVal := by
  intro v
  by_cases h0 : v = 0
  · subst h0; refine ⟨by simp [exEnv, exVal, lbOK]; norm_num, by simp [exEnv, exVal, ubOK]; norm_num, fun _ => ⟨-2, by simp [exVal]⟩⟩
  · by_cases h1 : v = 1
    · subst h1; refine ⟨by simp [exEnv, exVal, lbOK]; norm_num, by simp [exEnv, ubOK], fun h => by simp [exEnv] at h⟩
    · refine ⟨by simp [exEnv, exVal, h0, h1, lbOK], by simp [exEnv, exVal, h0, h1, ubOK], fun _ => ⟨1, by simp [exVal, h0, h1]⟩⟩

/-- the binary-argument hypothesis of C06_and / C06_or / C06_prop_down holds for variable 2 and fails for variable 0 -/
example : isBinaryVar exEnv 2 = true ∧ isBinaryVar exEnv 0 = false := by decide +kernel

/-- `C06_quad` / `C06_product_bounds` need no finiteness: the box `exEnv` has an unbounded variable and a NaN corner (`0·∞`) -/
example : (productBounds exEnv 1 2).2 = pinf ∧ mul (fin 0) pinf = nan := by decide +kernel

/-- the instance that FAILED before fix 15ae342 satisfies every hypothesis of `C06_abs_assign`: x0 ∈ [7,9], x1 fixed at −2. -/
def exAbsState : State :=
  { vars := #[{ lb := fin 7, ub := fin 9, int := false }, { lb := fin (-2), ub := fin (-2), int := false }],
    defs := #[none, none], fixed := [] }
def exAbsVal : Val := fun i => if i = 0 then 8 else if i = 1 then -2 else 2

example : exAbsState.WF ∧ FixedOK exAbsState ∧ (exAbsState.assign (.abs 1)).2 = .var 2 := by
  refine ⟨by simp [State.WF, exAbsState], fun kv h => by simp [exAbsState] at h, by decide +kernel⟩

example : Feasible exAbsState.env exAbsVal := by
  intro v
  by_cases h0 : v = 0
  · subst h0
    have : exAbsState.env 0 = { lb := fin 7, ub := fin 9, int := false } := by decide +kernel
    rw [this]; refine ⟨by simp [lbOK, exAbsVal]; norm_num, by simp [ubOK, exAbsVal]; norm_num, fun h => by simp at h⟩
  · by_cases h1 : v = 1
    · subst h1
      have : exAbsState.env 1 = { lb := fin (-2), ub := fin (-2), int := false } := by decide +kernel
      rw [this]; refine ⟨by simp [lbOK, exAbsVal], by simp [ubOK, exAbsVal], fun h => by simp at h⟩
    · have : exAbsState.env v = { lb := ninf, ub := pinf, int := false } := by
        simp only [State.env, exAbsState, Array.getD]
        have : ¬ v < 2 := by omega
        simp [this]
      rw [this]; exact ⟨trivial, trivial, fun h => by simp at h⟩

/-- the result variable (x2, fixed at 2) has the value |x1| = 2, as `C06_abs_assign` states -/
example : exAbsVal 2 = Con.eval (fun _ x => x) (fun _ _ x => x) exAbsVal (.abs 1) := by
  simp [exAbsVal, Con.eval]

/-- hypotheses of `C06_fix_equality` / `C06_gen_fixEqualityResult`: an integer body in [0,4] compared with 5/2 is fixed to false -/
example : fixEqualityResult { lb := fin 0, ub := fin 4, int := true } (5 / 2) preBool = some (preBool.narrow (fin 0) (fin 0)) := by
  decide +kernel

/-- hypotheses of `C06_pow_neg` (x ≠ 0, lb ≥ 0) and the guard it encodes: at x = 0 the totalised `0 ^ (−1) = 0` of Lean would lie outside
the inferred `[1/4, +∞]` for x ∈ [0,4] — which is why the theorem carries `val a ≠ 0` -/
example : (0 : Rat) ^ (-1 : Int) = 0 ∧ ¬ ((1 : Rat) / 4 ≤ 0) := by norm_num

/-- `TrRange` (hypothesis of `C06_assign_sound` / `C06_history_sound`) is satisfiable: the constant interpretation 1 lies in
every range the code assigns (exp ≥ 0, sin/cos/tanh ∈ [−1,1], cosh ≥ 1, acosh ≥ 0, asin/acos/atan within the `Pi()` bounds) -/
theorem trRange_const_one : TrRange (fun _ _ => 1) (fun _ _ _ => 1) := by
  constructor
  · intro f x hf
    cases f <;> first | exact absurd rfl hf | exact default_contains _ |
      (refine fresh_range_sound' _ _ _ (Or.inr ?_) (Or.inr ?_) <;> simp [lbOK, ubOK, piLit] <;> norm_num)
  · intro p x
    exact fresh_range_sound' _ _ _ (Or.inr (by simp [lbOK])) (Or.inr (by simp [ubOK]))

/-- the history theorem applies to a non-trivial history: from x0 ∈ [7,9], x1 = −2 the operations `x0^(−2)` (negative exponent, lb > 0), `abs(x1)` (redirect to a constant →
fixed variable), `2·x0 + x2` (new variable), `max(x0, x3)`, `exp(x4)`, the strict comparison `−x0 > 17/2` (not normalised: redirected to
`x0 < −17/2`) and the equality `2·x1 == 4`: all recorded bounds of the reachable state are sound -/
example : BoundsSound (fun _ _ => 1) (fun _ _ _ => 1)
    (runOps exAbsState [.pow 0 (-2), .abs 1, .lin 0 [(2, 0), (1, 3)], .max [0, 4], .un .exp 5, .clin 2 (17 / 2) [(-1, 0)], .clin 0 4 [(2, 1)]]) := by
  have hinit : BoundsSound (fun _ _ => 1) (fun _ _ _ => 1) exAbsState :=
    C06_initial_sound _ _ exAbsState (fun i => by
      by_cases h : i < 2
      · have : i = 0 ∨ i = 1 := by omega
        rcases this with rfl | rfl <;> decide +kernel
      · exact getD_ge _ _ _ (by simp [exAbsState]; omega))
  have hwf : exAbsState.WF := by simp [State.WF, exAbsState]
  refine (C06_history_sound _ _ trRange_const_one _ exAbsState hwf hinit ?_).1
  exact ⟨by simp [Covered], fun _ => Or.inr (by decide +kernel), trivial, trivial, trivial, trivial, by simp [Covered], trivial,
    by simp [Covered], trivial, by simp [Covered, KindOK], trivial, by simp [Covered, KindOK], trivial, trivial⟩

/-- non-vacuity: the empty fixed-variable map of the original variables satisfies `FixedInv` -/
example : FixedInv exAbsState := fun kv h => by simp [exAbsState] at h

end MpVerif.C06

"""C19 model generator: NL models whose *structure* stresses name derivation:
shared subexpressions used by several constraints/objectives, nesting several conversions deep,
logical constraints, range constraints (slack link), SOS sets through suffixes, several objectives,
defined variables; and several naming schemes for the .col/.row files (innocent and adversarial)."""
from fractions import Fraction as F
from nlgen import Model, Rng

GENERAL_TYPES = ['AbsConstraint', 'MaxConstraint', 'MinConstraint', 'AndConstraint', 'OrConstraint', 'NotConstraint',
                 'IfThenConstraint', 'ImplicationConstraint', 'AllDiffConstraint', 'NumberofConstConstraint',
                 'NumberofVarConstraint', 'CountConstraint', 'CondLinConLT', 'CondLinConLE', 'CondLinConEQ',
                 'CondLinConGE', 'CondLinConGT', 'IndicatorLinConLE', 'IndicatorLinConEQ', 'IndicatorLinConGE',
                 'SOS1Constraint', 'SOS2Constraint', 'LinearFunctionalConstraint', 'DivConstraint',
                 'QuadConRange', 'QuadConLE', 'QuadConEQ', 'QuadConGE', 'QuadraticFunctionalConstraint',
                 'CondQuadConLE', 'CondQuadConGE', 'CondQuadConEQ', 'IndicatorQuadConLE', 'IndicatorQuadConGE',
                 'IndicatorQuadConEQ', 'PLConstraint']
LINEAR = ['LinConRange', 'LinConLE', 'LinConEQ', 'LinConGE']


def gen_accept(rng):
    """acceptance configuration: comma list for RECSOLVER_ACCEPT"""
    k = rng.below(10)
    if k < 3:
        return list(LINEAR)
    if k == 3:
        return ['LinConLE', 'LinConEQ', 'LinConGE']           # ranges -> slack link
    if k == 4:
        return ['ALL']
    acc = list(LINEAR) if rng.chance(3, 4) else ['LinConLE', 'LinConEQ', 'LinConGE']
    for t in GENERAL_TYPES:
        if rng.chance(1, 3):
            acc.append(t)
    return acc


class Gen:
    def __init__(self, rng, size=1):
        self.r = rng
        self.size = size

    # ---------------- expressions
    def lin(self, nv, lo=1, hi=3):
        r = self.r
        k = r.rint(lo, min(hi, nv))
        js = []
        while len(js) < k:
            j = r.below(nv)
            if j not in js:
                js.append(j)
        return {j: r.choice([1, 1, 2, 3, -1, -2]) for j in js}

    def linexpr(self, nv):
        """small affine expression as an expression tree"""
        r = self.r
        terms = []
        for j, c in self.lin(nv, 1, 2).items():
            terms.append(('v', j) if c == 1 else ('*', ('n', c), ('v', j)))
        if r.chance(1, 3):
            terms.append(('n', r.rint(-3, 3)))
        if len(terms) == 1:
            return terms[0]
        return ('sum', terms) if len(terms) > 2 else ('+', terms[0], terms[1])

    def num(self, nv, depth):
        r = self.r
        if depth <= 0 or r.chance(1, 5):
            return self.linexpr(nv) if r.chance(1, 2) else ('v', r.below(nv))
        k = r.below(12)
        if k < 3:
            return ('abs', self.num(nv, depth - 1))
        if k < 5:
            return (r.choice(['max', 'min']), [self.num(nv, depth - 1) for _ in range(r.rint(2, 3))])
        if k == 5:
            return ('if', self.log(nv, depth - 1), self.num(nv, depth - 1), self.num(nv, depth - 1))
        if k == 6:
            return ('count', [self.log(nv, depth - 1) for _ in range(r.rint(2, 3))])
        if k == 7:
            return ('numberof', ('n', r.rint(0, 2)), [self.num(nv, 0) for _ in range(r.rint(2, 3))])
        if k == 8 and self.ints:
            # product with an integer/binary factor (linearizable) or plain quadratic
            return ('*', ('v', r.choice(self.ints)), ('v', r.below(nv)))
        if k == 9:
            return ('+', self.num(nv, depth - 1), self.num(nv, depth - 1))
        if k == 10:
            return ('neg', self.num(nv, depth - 1))
        return ('sum', [self.num(nv, depth - 1) for _ in range(r.rint(3, 4))])

    def rel(self, nv, depth):
        r = self.r
        op = r.choice(['le', 'ge', 'eq', 'lt', 'gt', 'ne', 'le', 'ge'])
        a = self.num(nv, depth)
        b = ('n', r.rint(-2, 4)) if r.chance(2, 3) else self.num(nv, 0)
        if op == 'ne':
            # `e != const` with the constant outside e's range makes the flattener crash (reported side finding)
            a, b = ('v', r.below(nv)), ('v', r.below(nv))
            if a == b:
                op = 'le'
        return (op, a, b)

    def log(self, nv, depth):
        r = self.r
        if depth <= 0 or r.chance(1, 4):
            return self.rel(nv, 0)
        k = r.below(11)
        if k < 2:
            return (r.choice(['or', 'and']), self.log(nv, depth - 1), self.log(nv, depth - 1))
        if k == 2:
            return ('not', self.log(nv, depth - 1))
        if k == 3:
            return ('implies', self.log(nv, depth - 1), self.log(nv, depth - 1), self.log(nv, depth - 1) if r.chance(1, 3) else ('T',))
        if k == 4:
            return ('iff', self.log(nv, depth - 1), self.log(nv, depth - 1))
        if k == 5:
            return (r.choice(['forall', 'exists']), [self.log(nv, depth - 1) for _ in range(r.rint(3, 4))])
        if k == 6 and len(self.ints) >= 2:
            return ('alldiff', [('v', j) for j in self.ints[:r.rint(2, min(4, len(self.ints)))]])
        if k == 7:
            return (r.choice(['atleast', 'atmost', 'exactly']), ('n', r.rint(1, 2)),
                    ('count', [self.log(nv, depth - 1) for _ in range(r.rint(2, 3))]))
        return self.rel(nv, depth - 1)

    # ---------------- names
    def names(self, kind, n, scheme, taken):
        r = self.r
        out = []
        base = {'v': ['x', 'y', 'Flow', 'u'], 'c': ['c', 'cap', 'Bal', 'lim'], 'l': ['lg', 'rule', 'L'], 'o': ['total', 'cost', 'obj']}[kind]
        for i in range(n):
            for attempt in range(50):
                b = r.choice(base)
                if scheme == 'plain':
                    nm = '%s%d' % (b, i + 1)
                elif scheme == 'ampl':
                    nm = r.choice(["%s[%d]" % (b, i + 1), "%s['a',%d]" % (b, i + 1), "%s[%d,%d]" % (b, i // 3 + 1, i % 3 + 1)])
                elif scheme == 'underscore':
                    nm = r.choice(['%s_%d' % (b, i + 1), '%s_total%d' % (b, i), '%s__%d' % (b, i + 1), '_%s%d' % (b, i + 1)])
                else:  # adversarial: shapes the presolve itself produces
                    if taken and r.chance(2, 3):
                        nm = r.choice(sorted(taken)) + r.choice(['_2_', '_3_', '_2__2_', '_slk_', '_equ_', '_4_', '_5_', '_6_'])
                    else:
                        nm = '%s%d' % (b, i + 1)
                if nm not in taken:
                    break
            else:
                nm = '%s_u%d' % (b, len(taken))
            taken.add(nm)
            out.append(nm)
        return out

    # ---------------- whole model
    def model(self):
        r = self.r
        m = Model()
        nv = r.rint(2, 4 + 2 * self.size)
        self.ints = []
        for j in range(nv):
            k = r.below(4)
            if k == 0:
                m.var(0, 1, True); self.ints.append(j)
            elif k == 1:
                m.var(r.rint(-3, 0), r.rint(1, 5), True); self.ints.append(j)
            else:
                m.var(r.rint(-6, 0), r.rint(1, 8), False)
        depth = r.rint(1, 2 + (1 if self.size > 1 else 0))
        # pool of shared subexpressions
        pool = [self.num(nv, r.rint(1, depth)) for _ in range(r.rint(1, 3))]
        lpool = [self.log(nv, r.rint(0, depth - 1)) for _ in range(r.rint(1, 2))]

        def nlpart():
            k = r.below(6)
            if k == 0:
                return None
            if k <= 2:
                return r.choice(pool)
            if k == 3:
                return ('+', r.choice(pool), self.num(nv, depth))
            if k == 4:
                return ('if', r.choice(lpool), r.choice(pool), ('n', r.rint(0, 3)))
            return self.num(nv, depth)
        ncon = r.rint(1, 3 + 2 * self.size)
        for i in range(ncon):
            k = r.below(5)
            a = r.rint(-4, 6)
            if k == 0:
                lb, ub = a, a + r.rint(1, 6)
            elif k == 1:
                lb, ub = a, a
            elif k == 2:
                lb, ub = None, a
            elif k == 3:
                lb, ub = a, None
            else:
                lb, ub = a - r.rint(1, 3), a + 2
            m.con(lb, ub, self.lin(nv, 1, 3) if r.chance(4, 5) else {}, nlpart())
        for i in range(r.below(2 + self.size)):
            k = r.below(4)
            if k == 0:
                e = r.choice(lpool)
            elif k == 1:
                e = ('or', r.choice(lpool), self.log(nv, depth - 1))
            elif k == 2:
                e = ('implies', r.choice(lpool), self.rel(nv, 1), ('T',))
            else:
                e = self.log(nv, depth)
            m.lcon(e)
        for i in range(r.rint(1, 2) if r.chance(1, 4) else 1):
            m.obj(r.choice(['min', 'max']), self.lin(nv, 1, 3), nlpart() if r.chance(1, 2) else None)
        # SOS via suffixes
        self.sos_groups = {}
        if nv >= 3 and r.chance(1, 3):
            ngroups = r.rint(1, 2)
            free = list(range(nv))
            sosno, ref = {}, {}
            for g in range(ngroups):
                if len(free) < 2:
                    break
                sz = r.rint(2, min(3, len(free)))
                members = [free.pop(r.below(len(free))) for _ in range(sz)]
                no = (g + 1) * (1 if r.chance(1, 2) else -1)
                for w, j in enumerate(members):
                    sosno[j] = no
                    ref[j] = w + 1 + g * 10
                self.sos_groups[no] = members
            m.suffixes.append({'name': 'sosno', 'kind': 0, 'float': False, 'vals': sosno})
            m.suffixes.append({'name': 'ref', 'kind': 0, 'float': True, 'vals': ref})
        # names
        scheme = r.choice(['plain', 'plain', 'ampl', 'underscore', 'adversarial'])
        self.scheme = scheme
        tv, tc = set(), set()
        for v, nm in zip(m.vars, self.names('v', nv, scheme, tv)):
            v['name'] = nm
        if scheme == 'adversarial' and r.chance(1, 2):
            tc |= tv      # let row names collide-by-shape with column names too
        for c, nm in zip(m.cons, self.names('c', len(m.cons), scheme, tc)):
            c['name'] = nm
        for c, nm in zip(m.lcons, self.names('l', len(m.lcons), scheme, tc)):
            c['name'] = nm
        for o, nm in zip(m.objs, self.names('o', len(m.objs), scheme, tc)):
            o['name'] = nm
        return m

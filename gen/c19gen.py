"""C19 model generator: NL models whose *structure* stresses name derivation:
shared subexpressions used by several constraints/objectives, nesting several conversions deep,
logical constraints, range constraints (slack link), SOS sets through suffixes, several objectives,
defined variables; and several naming schemes for the .col/.row files (innocent and adversarial)."""
from fractions import Fraction as F
from nlgen import Model, Rng

GENERAL_TYPES = ['AbsConstraint', 'MaxConstraint', 'MinConstraint', 'AndConstraint', 'OrConstraint', 'NotConstraint',
                 'IfThenConstraint', 'ImplicationConstraint', 'AllDiffConstraint', 'NumberofConstConstraint',
                 'NumberofVarConstraint', 'CountConstraint', 'CondLinConLT', 'CondLinConLE', 'CondLinConEQ',
                 'CondLinConGE', 'CondLinConGT', 'IndicatorLinConLE', 'IndicatorLinConEQ', 'IndicatorLinConGE',
                 'SOS1Constraint', 'SOS2Constraint', 'LinearFunctionalConstraint', 'DivConstraint',
                 'QuadConRange', 'QuadConLE', 'QuadConEQ', 'QuadConGE', 'QuadraticFunctionalConstraint',
                 'CondQuadConLE', 'CondQuadConGE', 'CondQuadConEQ', 'IndicatorQuadConLE', 'IndicatorQuadConGE',
                 'IndicatorQuadConEQ', 'PLConstraint']
LINEAR = ['LinConRange', 'LinConLE', 'LinConEQ', 'LinConGE']
CONIC_TYPES = ['QuadraticConeConstraint', 'RotatedQuadraticConeConstraint', 'QuadConRange', 'QuadConLE', 'QuadConEQ', 'QuadConGE',
               'PowConstraint', 'AbsConstraint', 'QuadraticFunctionalConstraint', 'LinearFunctionalConstraint']


def gen_accept_conic(rng):
    k = rng.below(8)
    if k == 0:
        return ['ALL']
    acc = list(LINEAR)
    if k <= 3:       # cones natively accepted
        acc += ['QuadraticConeConstraint', 'RotatedQuadraticConeConstraint']
        for t in CONIC_TYPES[2:]:
            if rng.chance(1, 2):
                acc.append(t)
    elif k <= 5:     # only quadratics accepted
        acc += ['QuadConRange', 'QuadConLE', 'QuadConEQ', 'QuadConGE']
        for t in ('PowConstraint', 'AbsConstraint', 'QuadraticConeConstraint'):
            if rng.chance(1, 3):
                acc.append(t)
    else:
        for t in CONIC_TYPES:
            if rng.chance(1, 2):
                acc.append(t)
    return acc


def conic_options(rng):
    """(driver options, RECSOLVER_QUADOBJ)"""
    opts = []
    if rng.chance(2, 3):
        opts.append('cvt:socp=%d' % rng.choice([0, 1, 2, 2, 2]))
    if rng.chance(1, 2):
        opts.append('cvt:socp2qc=%d' % rng.below(3))
    qenv = rng.choice([0, 1, 1])
    if rng.chance(2, 3):
        opts.append('cvt:quadobj=%d' % rng.choice([0, 1, 1]))
    return opts, qenv


def gen_accept(rng):
    """acceptance configuration: comma list for RECSOLVER_ACCEPT"""
    k = rng.below(10)
    if k < 3:
        return list(LINEAR)
    if k == 3:
        return ['LinConLE', 'LinConEQ', 'LinConGE']           # ranges -> slack link
    if k == 4:
        return ['ALL']
    acc = list(LINEAR) if rng.chance(3, 4) else ['LinConLE', 'LinConEQ', 'LinConGE']
    for t in GENERAL_TYPES:
        if rng.chance(1, 3):
            acc.append(t)
    return acc


class Gen:
    def __init__(self, rng, size=1):
        self.r = rng
        self.size = size
        self.has_compl = False
        self.family = 'general'

    # ---------------- expressions
    def lin(self, nv, lo=1, hi=3):
        r = self.r
        k = r.rint(lo, min(hi, nv))
        js = []
        while len(js) < k:
            j = r.below(nv)
            if j not in js:
                js.append(j)
        return {j: r.choice([1, 1, 2, 3, -1, -2]) for j in js}

    def linexpr(self, nv):
        """small affine expression as an expression tree"""
        r = self.r
        terms = []
        for j, c in self.lin(nv, 1, 2).items():
            terms.append(('v', j) if c == 1 else ('*', ('n', c), ('v', j)))
        if r.chance(1, 3):
            terms.append(('n', r.rint(-3, 3)))
        if len(terms) == 1:
            return terms[0]
        return ('sum', terms) if len(terms) > 2 else ('+', terms[0], terms[1])

    def num(self, nv, depth):
        r = self.r
        if depth <= 0 or r.chance(1, 5):
            k0 = r.below(8)
            if k0 == 0:
                return ('n', r.rint(0, 3))           # constants: fixed variables shared between conversions (MakeFixedVar)
            return self.linexpr(nv) if k0 < 4 else ('v', r.below(nv))
        k = r.below(13)
        if k == 12:
            # piecewise-linear term (-> PLConstraint -> SOS2 / lambda variables when not accepted)
            nb = r.rint(1, 3)
            bps = sorted({r.rint(-3, 6) for _ in range(nb)})
            slopes = [r.rint(-2, 3) for _ in range(len(bps) + 1)]
            return ('pl', slopes, bps, r.below(nv))
        if k < 3:
            return ('abs', self.num(nv, depth - 1))
        if k < 5:
            return (r.choice(['max', 'min']), [self.num(nv, depth - 1) for _ in range(r.rint(2, 3))])
        if k == 5:
            return ('if', self.log(nv, depth - 1), self.num(nv, depth - 1), self.num(nv, depth - 1))
        if k == 6:
            return ('count', [self.log(nv, depth - 1) for _ in range(r.rint(2, 3))])
        if k == 7:
            return ('numberof', ('n', r.rint(0, 2)), [self.num(nv, 0) for _ in range(r.rint(2, 3))])
        if k == 8 and self.ints:
            # product with an integer/binary factor (linearizable) or plain quadratic
            return ('*', ('v', r.choice(self.ints)), ('v', r.below(nv)))
        if k == 9:
            return ('+', self.num(nv, depth - 1), self.num(nv, depth - 1))
        if k == 10:
            return ('neg', self.num(nv, depth - 1))
        return ('sum', [self.num(nv, depth - 1) for _ in range(r.rint(3, 4))])

    def rel(self, nv, depth):
        r = self.r
        op = r.choice(['le', 'ge', 'eq', 'lt', 'gt', 'ne', 'le', 'ge'])
        a = self.num(nv, depth)
        b = ('n', r.rint(-2, 4)) if r.chance(2, 3) else self.num(nv, 0)
        if op == 'ne':
            # `e != const` with the constant outside e's range makes the flattener crash (reported side finding)
            a, b = ('v', r.below(nv)), ('v', r.below(nv))
            if a == b:
                op = 'le'
        return (op, a, b)

    def log(self, nv, depth):
        r = self.r
        if self.ints and r.chance(1, 6):
            # equality comparisons of one bounded integer variable with several constants
            # (-> CondLinConEQ map per variable, unary encoding, Many2OneLink)
            j = r.choice(self.ints)
            ks = [r.rint(-1, 3) for _ in range(r.rint(2, 3))]
            es = [('eq', ('v', j), ('n', k)) for k in dict.fromkeys(ks)]
            if len(es) == 1:
                return es[0]
            return ('or', es[0], es[1]) if len(es) == 2 else ('exists', es)
        if depth <= 0 or r.chance(1, 4):
            return self.rel(nv, 0)
        k = r.below(11)
        if k < 2:
            return (r.choice(['or', 'and']), self.log(nv, depth - 1), self.log(nv, depth - 1))
        if k == 2:
            return ('not', self.log(nv, depth - 1))
        if k == 3:
            return ('implies', self.log(nv, depth - 1), self.log(nv, depth - 1), self.log(nv, depth - 1) if r.chance(1, 3) else ('T',))
        if k == 4:
            return ('iff', self.log(nv, depth - 1), self.log(nv, depth - 1))
        if k == 5:
            return (r.choice(['forall', 'exists']), [self.log(nv, depth - 1) for _ in range(r.rint(3, 4))])
        if k == 6 and len(self.ints) >= 2:
            return ('alldiff', [('v', j) for j in self.ints[:r.rint(2, min(4, len(self.ints)))]])
        if k == 7:
            return (r.choice(['atleast', 'atmost', 'exactly']), ('n', r.rint(1, 2)),
                    ('count', [self.log(nv, depth - 1) for _ in range(r.rint(2, 3))]))
        return self.rel(nv, depth - 1)

    # ---------------- names
    def names(self, kind, n, scheme, taken):
        r = self.r
        out = []
        base = {'v': ['x', 'y', 'Flow', 'u'], 'c': ['c', 'cap', 'Bal', 'lim'], 'l': ['lg', 'rule', 'L'], 'o': ['total', 'cost', 'obj']}[kind]
        for i in range(n):
            for attempt in range(50):
                b = r.choice(base)
                if scheme == 'plain':
                    nm = '%s%d' % (b, i + 1)
                elif scheme == 'ampl':
                    nm = r.choice(["%s[%d]" % (b, i + 1), "%s['a',%d]" % (b, i + 1), "%s[%d,%d]" % (b, i // 3 + 1, i % 3 + 1)])
                elif scheme == 'underscore':
                    nm = r.choice(['%s_%d' % (b, i + 1), '%s_total%d' % (b, i), '%s__%d' % (b, i + 1), '_%s%d' % (b, i + 1)])
                else:  # adversarial: shapes the presolve itself produces
                    if taken and r.chance(2, 3):
                        nm = r.choice(sorted(taken)) + r.choice(['_2_', '_3_', '_2__2_', '_slk_', '_equ_', '_4_', '_5_', '_6_'])
                    else:
                        nm = '%s%d' % (b, i + 1)
                if nm not in taken:
                    break
            else:
                nm = '%s_u%d' % (b, len(taken))
            taken.add(nm)
            out.append(nm)
        return out

    # ---------------- conic family: SOC / rotated SOC rows + (separable) quadratic objective
    def conic_model(self):
        r = self.r
        m = Model()
        self.ints = []
        self.sos_groups = {}
        nx = r.rint(2, 4)
        xs = [m.var(-10, 10) for _ in range(nx)]
        z = m.var(0, 10)
        y = m.var(0, r.choice([10, None]))
        w = m.var(0, 10)
        nv = len(m.vars)

        def sq(j, c=1):
            e = r.choice([('pow', ('v', j), ('n', 2)), ('*', ('v', j), ('v', j)), ('sqr', ('v', j))]) if r.chance(2, 3) else ('pow', ('v', j), ('n', 2))
            return e if c == 1 else ('*', ('n', c), e)

        def sumsq(js, coefs=None):
            ts = [sq(j, (coefs or {}).get(j, 1)) for j in js]
            return ts[0] if len(ts) == 1 else (('+', ts[0], ts[1]) if len(ts) == 2 else ('sum', ts))
        for _ in range(r.rint(1, 3)):
            k = r.below(7)
            js = xs[:r.rint(2, nx)]
            if k == 0:      # x^2 + y^2 - z^2 <= 0
                m.con(None, 0, {}, ('-', sumsq(js), sq(z)))
            elif k == 1:    # sqrt(x^2+y^2) <= z
                m.con(None, 0, {z: -1}, ('sqrt', sumsq(js)))
            elif k == 2:    # ball
                m.con(None, r.choice([4, 9, 1]), {}, sumsq(js))
            elif k == 3:    # rotated: x^2 + .. <= 2 y w
                m.con(None, 0, {}, ('-', sumsq(js), ('*', ('n', 2), ('*', ('v', y), ('v', w)))))
            elif k == 4:    # z^2 >= x^2 + y^2  written as >=
                m.con(0, None, {}, ('-', sq(z), sumsq(js)))
            elif k == 5:    # norm with a constant: sqrt(x^2 + 4) <= z
                m.con(None, 0, {z: -1}, ('sqrt', ('+', sumsq(js[:1]), ('n', 4))))
            else:           # abs-based: |x| <= z
                m.con(None, 0, {z: -1}, ('abs', ('v', js[0])))
        for _ in range(r.below(3)):
            m.con(r.rint(-2, 1), None if r.chance(1, 2) else r.rint(2, 9), self.lin(nv, 1, 3))
        if r.chance(1, 4):      # a linear complementarity row: expr >= 0 complements x >= 0
            m.con(0, None, self.lin(nv, 1, 2))
            m.cons[-1]['compl'] = (r.choice([z, w]), 2)
            self.has_compl = True
        # objective(s)
        for _ in range(2 if r.chance(1, 6) else 1):
            k = r.below(6)
            js = xs[:r.rint(1, nx)]
            lin = self.lin(nv, 1, 2) if r.chance(2, 3) else {}
            if k <= 2:
                m.obj('min', lin, sumsq(js, {j: r.rint(1, 3) for j in js}))
            elif k == 3:
                m.obj('max', lin, ('neg', sumsq(js, {j: r.rint(1, 3) for j in js})))
            elif k == 4:
                m.obj('min', lin, ('+', sumsq(js), ('*', ('v', xs[0]), ('v', xs[1]))))   # not separable
            else:
                m.obj(r.choice(['min', 'max']), self.lin(nv, 1, 3), None)
        scheme = r.choice(['plain', 'ampl', 'underscore', 'adversarial'])
        self.scheme = scheme
        tv, tc = set(), set()
        for v, nm in zip(m.vars, self.names('v', nv, scheme, tv)):
            v['name'] = nm
        for c, nm in zip(m.cons, self.names('c', len(m.cons), scheme, tc)):
            c['name'] = nm
        for o, nm in zip(m.objs, self.names('o', len(m.objs), scheme, tc)):
            o['name'] = nm
        return m

    # ---------------- whole model
    def model(self, norows=False):
        """norows: a model without any algebraic or logical constraint (bounds only / SOS only), objective with a
        nonlinear part so that derived items exist"""
        r = self.r
        m = Model()
        nv = r.rint(2, 4 + 2 * self.size)
        self.ints = []
        for j in range(nv):
            k = r.below(4)
            if k == 0:
                m.var(0, 1, True); self.ints.append(j)
            elif k == 1:
                m.var(r.rint(-3, 0), r.rint(1, 5), True); self.ints.append(j)
            else:
                m.var(r.rint(-6, 0), r.rint(1, 8), False)
        depth = r.rint(1, 2 + (1 if self.size > 1 else 0))
        # pool of shared subexpressions
        pool = [self.num(nv, r.rint(1, depth)) for _ in range(r.rint(1, 3))]
        lpool = [self.log(nv, r.rint(0, depth - 1)) for _ in range(r.rint(1, 2))]
        # AMPL defined variables: a pool entry becomes a common expression referenced from several items
        if r.chance(1, 3):
            for k in range(r.rint(1, 2)):
                i = r.below(len(pool))
                if pool[i][0] == 'dv':
                    continue
                m.dvars.append({'lin': self.lin(nv, 1, 2) if r.chance(1, 2) else {}, 'nl': pool[i], 'name': 'dv%d' % (len(m.dvars) + 1)})
                pool[i] = ('dv', len(m.dvars) - 1)

        def nlpart():
            k = r.below(6)
            if k == 0:
                return None
            if k <= 2:
                return r.choice(pool)
            if k == 3:
                return ('+', r.choice(pool), self.num(nv, depth))
            if k == 4:
                return ('if', r.choice(lpool), r.choice(pool), ('n', r.rint(0, 3)))
            return self.num(nv, depth)
        ncon = 0 if norows else r.rint(1, 3 + 2 * self.size)
        for i in range(ncon):
            k = r.below(5)
            a = r.rint(-4, 6)
            if k == 0:
                lb, ub = a, a + r.rint(1, 6)
            elif k == 1:
                lb, ub = a, a
            elif k == 2:
                lb, ub = None, a
            elif k == 3:
                lb, ub = a, None
            else:
                lb, ub = a - r.rint(1, 3), a + 2
            m.con(lb, ub, self.lin(nv, 1, 3) if r.chance(4, 5) else {}, nlpart())
        for i in range(0 if norows else r.below(2 + self.size)):
            k = r.below(4)
            if k == 0:
                e = r.choice(lpool)
            elif k == 1:
                e = ('or', r.choice(lpool), self.log(nv, depth - 1))
            elif k == 2:
                e = ('implies', r.choice(lpool), self.rel(nv, 1), ('T',))
            else:
                e = self.log(nv, depth)
            m.lcon(e)
        for i in range(r.rint(1, 2) if r.chance(1, 4) else (0 if (r.chance(1, 12) and not norows) else 1)):
            m.obj(r.choice(['min', 'max']), self.lin(nv, 1, 3), (nlpart() or r.choice(pool)) if (norows and r.chance(3, 4)) else (nlpart() if r.chance(1, 2) else None))
        # SOS via suffixes
        self.sos_groups = {}
        if nv >= 3 and r.chance(1, 2 if norows else 3):
            ngroups = r.rint(1, 2)
            free = list(range(nv))
            sosno, ref = {}, {}
            for g in range(ngroups):
                if len(free) < 2:
                    break
                sz = r.rint(2, min(3, len(free)))
                members = [free.pop(r.below(len(free))) for _ in range(sz)]
                no = (g + 1) * (1 if r.chance(1, 2) else -1)
                for w, j in enumerate(members):
                    sosno[j] = no
                    ref[j] = w + 1 + g * 10
                self.sos_groups[no] = members
            m.suffixes.append({'name': 'sosno', 'kind': 0, 'float': False, 'vals': sosno})
            m.suffixes.append({'name': 'ref', 'kind': 0, 'float': True, 'vals': ref})
        # names
        scheme = r.choice(['plain', 'plain', 'ampl', 'underscore', 'adversarial'])
        self.scheme = scheme
        tv, tc = set(), set()
        for v, nm in zip(m.vars, self.names('v', nv, scheme, tv)):
            v['name'] = nm
        if scheme == 'adversarial' and r.chance(1, 2):
            tc |= tv      # let row names collide-by-shape with column names too
        for c, nm in zip(m.cons, self.names('c', len(m.cons), scheme, tc)):
            c['name'] = nm
        for c, nm in zip(m.lcons, self.names('l', len(m.lcons), scheme, tc)):
            c['name'] = nm
        for o, nm in zip(m.objs, self.names('o', len(m.objs), scheme, tc)):
            o['name'] = nm
        return m

"""Structure-aware generator of .sol files (text and binary) for C14 / C05.

A `Sol` is the *intent*; `text_bytes` / `bin_bytes` serialise it the way the AMPL formats
are laid out (the binary layout is the one SOLReader2 parses: Fortran-style records).
`expected_events` gives what a handler must observe for an unmutated file (independent of
the Lean model).  All randomness comes from the `random.Random` passed in.
"""
import struct, math, random

HOSTILE_NUM = [b'99999999999', b'-1', b'2147483647', b'2147483648', b'4294967296', b'1e400', b'nan', b'inf', b'-inf',
               b'0x10', b'', b' ', b'1.', b'.5e', b'1e+', b'12abc', b'+', b'-', b'1e-400', b'0x', b'0x.p1', b'nan(ab_1)',
               b'nan(', b'infinit', b'INFINITY', b'\t 7', b'7 8 9', b'3000000000', b'-3000000000', b'1e10', b'-1e10',
               b'9223372036854775808', b'-9223372036854775809', b'@@%s@@', b'1e30 @@%n@@', b'@@%d@@ 1', b'5 @@%x@@', b'@@%2147483647d@@', b'000000000000000000005', b'512', b'513', b'511', b'510']

DOUBLES = [0.0, -0.0, 1.0, -1.0, 0.5, 1e15, 123456789012345.0, 1e-300, 5e-324, 2.2250738585072014e-308,
           1.7976931348623157e308, 0.1, 1 / 3, 2 / 3, 1e22, 1e23, 9007199254740993.0, 3.141592653589793,
           -2.718281828459045, 4.35, 0.3, 1e-5, 123456.789, 1e16, 12345678901234567.0, 0.1 + 0.2]


def rand_double(rng):
    r = rng.random()
    if r < 0.3:
        return rng.choice(DOUBLES)
    if r < 0.5:
        return float(rng.randint(-1000, 1000))
    if r < 0.7:
        return rng.uniform(-1e6, 1e6)
    if r < 0.8:
        return float(rng.randint(-10 ** 15, 10 ** 15))
    # arbitrary bit pattern, finite
    while True:
        x = struct.unpack('<d', struct.pack('<Q', rng.getrandbits(64)))[0]
        if math.isfinite(x):
            return x


def fmt16(x):
    """what fmt's '{:.16}' prints for a double (printf %.16g)"""
    return ('%.16g' % x).encode()


class Sol:
    def __init__(self):
        self.msg = []          # list of bytes lines (no \n); [] = no message
        self.options = None    # list of ints (AMPL option values) or None = no Options block
        self.vbtol = None      # float or None
        self.ncons = 0         # count fields of the Options block
        self.nvars = 0
        self.duals = []
        self.primals = []
        self.objno = 0         # None = no objno line
        self.code = 0
        self.sufs = []         # (kind, name bytes, table bytes|None, [(idx, val)])
        self.eol = b'\n'       # text format line ending

    def clone(self):
        import copy
        return copy.deepcopy(self)


NAMES = [b'sstatus', b'x', b'iis', b'priority', b'ref', b'a_b', b'dunbdd', b'very_long_suffix_name_0123456789' * 3]
TABLES = [b'0\tnone\tnot in basis', b'0\tnone\tnot in basis\n1\tbas\tbasic\n2\tsup\tsuperbasic',
          b'1 low\n2 upp\n3 equ\n4 btw', b'x', b'a\nb\nc\nd\ne\nf', b'1\tx\ty' * 40]


def rand_sol(rng, maxn=12, with_options=None):
    s = Sol()
    nl = rng.choice([0, 1, 1, 1, 2, 3, 5])
    for _ in range(nl):
        k = rng.choice([0, 1, 5, 20, 60, 200])
        alphabet = b'abcdefghijklmnopqrstuvwxyzABC 0123456789:.,;=-+_()%\\\t'
        ln = bytes(rng.choice(alphabet) for _ in range(k)) if k else b' '
        if rng.random() < 0.1:
            ln = b'\b' * rng.randint(1, 4) + ln
        if rng.random() < 0.05:
            ln = b'O' + ln
        s.msg.append(ln.rstrip(b' ') or b'x')
    nd = rng.choice([0, 0, 1, 2, 3, maxn, rng.randint(0, maxn)])
    nv = rng.choice([0, 1, 2, 3, maxn, rng.randint(0, maxn)])
    s.duals = [rand_double(rng) for _ in range(nd)]
    s.primals = [rand_double(rng) for _ in range(nv)]
    if with_options is None:
        with_options = rng.random() < 0.7
    if with_options:
        k = rng.randint(3, 9)
        s.options = [rng.choice([0, 1, 2, 3, 4, 7]) for _ in range(k)]
        if k >= 4 and rng.random() < 0.3:
            s.options[1] = 3
            s.vbtol = rng.choice([1e-6, 0.0, 2.5, 1e-300])
        elif s.options[1] == 3:
            s.options[1] = 1
        s.ncons = nd + rng.choice([0, 0, 1, 5])
        s.nvars = nv + rng.choice([0, 0, 1, 5])
    else:
        s.ncons, s.nvars = nd, nv
    s.objno = rng.choice([0, 0, 1, -1, 5])
    s.code = rng.choice([0, 100, 200, 299, 500, 567, -1, 999])
    for _ in range(rng.choice([0, 0, 1, 2, 4])):
        kind = rng.choice([0, 1, 2, 3]) | rng.choice([0, 4]) | rng.choice([0, 0, 8])
        name = rng.choice(NAMES)
        table = rng.choice([None, None] + TABLES)
        n = rng.choice([0, 1, 2, 5])
        vals = []
        for _ in range(n):
            idx = rng.randint(0, 20)
            v = rand_double(rng) if kind & 4 else rng.randint(-100, 100)
            vals.append((idx, v))
        s.sufs.append((kind, name, table, vals))
    return s


def text_bytes(s, eol=None):
    if eol is None:
        eol = s.eol
    s.eol = eol
    out = []
    for ln in s.msg:
        out.append(ln + eol)
    out.append(eol)
    if s.options is not None:
        out.append(b'Options' + eol)
        n = len(s.options)
        # with vbtol the reader takes two fewer option lines
        opts = s.options if s.vbtol is None else s.options[:n - 2]
        out.append(b'%d' % n + eol)
        for o in opts:
            out.append(b'%d' % o + eol)
        for c in (s.ncons, len(s.duals), s.nvars, len(s.primals)):
            out.append(b'%d' % c + eol)
        if s.vbtol is not None:
            out.append(fmt16(s.vbtol) + eol)
    for x in s.duals:
        out.append(fmt16(x) + eol)
    for x in s.primals:
        out.append(fmt16(x) + eol)
    if s.objno is not None:
        out.append(b'objno %d %d' % (s.objno, s.code) + eol)
        for kind, name, table, vals in s.sufs:
            if table:
                table = table.replace(b'\n', eol)
            # tablen counts the bytes of the table as they are in the file (+ terminator; the reader needs one
            # more byte of room when the last line ends in \r\n)
            tablen = len(table) + len(eol) if table else 0
            tablines = 1 + table.count(b'\n') if table else 0
            out.append(b'suffix %d %d %d %d %d' % (kind, len(vals), len(name) + 1, tablen, tablines) + eol)
            out.append(name + eol)
            if table:
                out.append(table + eol)
            for idx, v in vals:
                out.append(b'%d ' % idx + (fmt16(v) if kind & 4 else b'%d' % v) + eol)
    return b''.join(out)


def rec(b):
    return struct.pack('<I', len(b)) + b + struct.pack('<I', len(b))


def bin_bytes(s):
    out = [rec(b'binary')]
    for ln in s.msg:
        out.append(rec(ln))
    out.append(rec(b''))
    if s.options is not None:
        n = len(s.options)
        opts = s.options if s.vbtol is None else s.options[:n - 2]
        ints = [n] + opts + [s.ncons, len(s.duals), s.nvars, len(s.primals)]
        b = b'Options' + b''.join(struct.pack('<i', x) for x in ints)
        if s.vbtol is not None:
            b += struct.pack('<d', s.vbtol)
        out.append(rec(b))
    out.append(rec(b''.join(struct.pack('<d', x) for x in s.duals)))
    out.append(rec(b''.join(struct.pack('<d', x) for x in s.primals)))
    if s.objno is not None:
        out.append(rec(struct.pack('<ii', s.objno, s.code)))
        for kind, name, table, vals in s.sufs:
            nameb = name + b'\0'
            tabb = (table + b'\0') if table else b''
            b = b'\nSuffix\n' + struct.pack('<iiii', kind, len(vals), len(nameb), len(tabb)) + nameb + tabb
            for idx, v in vals:
                b += struct.pack('<i', idx) + (struct.pack('<d', v) if kind & 4 else struct.pack('<i', v))
            out.append(rec(b))
    return b''.join(out)


def dbits(x):
    return 'R' + struct.pack('<d', x).hex()


def hexs(b):
    return b.hex() if b else '-'


def expected_events(s, binary, text_roundtrip=lambda x: float(fmt16(x))):
    """events a read-everything handler must see for the unmutated file (declared sizes large enough)"""
    cv = (lambda x: x) if binary else text_roundtrip
    ev = []
    # message
    if binary:
        lines = list(s.msg)
        text = b''
        nbs = 0
        bs = True
        for ln in lines:
            ln = ln.rstrip(b' ')
            if bs and ln[:1] == b'\b':
                k = len(ln) - len(ln.lstrip(b'\b'))
                nbs += k
                if k == len(ln):
                    continue
                ln = ln[k:]
                bs = False
            text += ln
        if text:
            ev.append('msg %s %d' % (hexs(text + b'\n'), nbs))
    else:
        text = b''
        nbs = 0
        bs = True
        for ln in s.msg:
            ln = ln + b'\n'
            if bs and ln[:1] == b'\b':
                k = len(ln) - len(ln.lstrip(b'\b'))
                nbs += k
                ln = ln[k:]
                bs = False
            text += ln
        if text:
            ev.append('msg %s %d' % (hexs(text), nbs))
    if s.options is not None:
        n = len(s.options)
        opts = s.options if s.vbtol is None else s.options[:n - 2]
        ints = [n] + opts + [s.ncons, len(s.duals), s.nvars, len(s.primals)]
        ev.append('opts %s %d %s' % (','.join(map(str, ints)), 1 if s.vbtol is not None else 0,
                                     dbits(cv(s.vbtol)) if s.vbtol is not None else '-'))
    if s.duals:
        ev.append('dual %d OK 0 %s' % (len(s.duals), ','.join(dbits(cv(x)) for x in s.duals)))
    if s.primals:
        ev.append('primal %d OK 0 %s' % (len(s.primals), ','.join(dbits(cv(x)) for x in s.primals)))
    if s.objno is not None:
        ev.append('objno I%d I%d' % (s.objno, s.code))
        for kind, name, table, vals in s.sufs:
            items = ','.join('%d:%s' % (i, dbits(cv(v)) if kind & 4 else 'I%d' % v) for i, v in vals) or '-'
            tb = table or b''
            if not binary:
                tb = tb.replace(b'\n', s.eol)
            ev.append('suf %d %s %s %d OK 0 %s' % (kind, hexs(name), hexs(tb), len(vals), items))
    return ev


# ------------------------------------------------------------------ mutations

def mutate(rng, b, binary):
    b = bytearray(b)
    r = rng.random()
    if not b:
        return bytes(b), 'empty'
    if r < 0.25:
        k = rng.randint(0, len(b))
        return bytes(b[:k]), 'truncate'
    if r < 0.40:
        for _ in range(rng.choice([1, 1, 2, 5])):
            i = rng.randrange(len(b))
            b[i] = rng.choice([0, 10, 13, 32, 8, 255, ord('O'), ord('9'), ord('-'), rng.randrange(256)])
        return bytes(b), 'byteflip'
    if r < 0.50:
        i = rng.randrange(len(b) + 1)
        ins = rng.choice([b'\0', b'\n', b'\r\n', b'\r', b' ', b'\b', b'9' * rng.choice([1, 12, 600]), b'x' * rng.choice([511, 512, 513, 1030]),
                          b'Options\n', b'objno ', b'suffix 0 1 4 0 0\n', bytes(rng.randrange(256) for _ in range(rng.randint(1, 8)))])
        return bytes(b[:i] + ins + b[i:]), 'insert'
    if r < 0.58:
        i = rng.randrange(len(b))
        j = min(len(b), i + rng.choice([1, 2, 4, 8, 30]))
        return bytes(b[:i] + b[j:]), 'delete'
    if r < 0.66 and not binary:
        return bytes(b).replace(b'\n', b'\r\n'), 'crlf'
    if not binary:
        # replace one whole line's number by a hostile one
        lines = bytes(b).split(b'\n')
        i = rng.randrange(len(lines))
        parts = lines[i].split(b' ')
        j = rng.randrange(len(parts))
        parts[j] = rng.choice(HOSTILE_NUM)
        lines[i] = b' '.join(parts)
        return b'\n'.join(lines), 'hostile-number'
    # binary: overwrite an aligned 32-bit word with a hostile value
    if len(b) >= 4:
        i = rng.randrange(0, len(b) - 3)
        if rng.random() < 0.7:
            i -= i % 4
            i = min(i + 2, len(b) - 4) if rng.random() < 0.5 else i   # records are 2 mod 4 after the 14-byte magic
        v = rng.choice([0, 1, 2, 3, 4, 6, 7, 8, 23, 24, 39, 43, 63, 67, 512, 513, 0x7fffffff, 0x80000000, 0xffffffff, 0x40000000,
                        0x3fffffff, 100000, rng.getrandbits(32)])
        b[i:i + 4] = struct.pack('<I', v)
    return bytes(b), 'hostile-word'


def hostile_suffix_text(rng):
    """a text file that is fine up to a suffix header with extreme fields"""
    s = rand_sol(rng, maxn=3)
    s.sufs = []
    s.objno = 0
    base = text_bytes(s)
    kind = rng.choice([0, 1, 4, 7, 15, 16, 99])
    n = rng.choice([0, 1, 2, 3, 2147483647, 99999999999])
    namelen = rng.choice([0, 1, 2, 3, 4, 5, 100, 400, 509, 510, 511, 512, 513, 514, 600, 1000, 5000, 100000, 1073741823, 1073741824,
                          2147483647, 2147483648, 99999999999])
    tablen = rng.choice([0, 0, 0, 1, 2, 5, 10, 100, 1000, 100000, 2147483647, 2147483641, 99999999999])
    tablines = rng.choice([0, 1, 2, 3, tablen, tablen + 1, tablen + 2, 99999999999])
    if tablen > 2000000 and namelen < (1 << 30) and tablen < 2147483647 and kind <= 15 and namelen >= 2 \
            and (tablen + 2 * namelen + 6) < (1 << 31) and 1 <= tablines <= tablen + 1 and tablines < (1 << 31):
        tablen = 1000     # avoid gigabyte allocations that are legal for the reader
    if namelen > 2000000 and namelen < (1 << 30) and (tablen + 2 * namelen + 6) < (1 << 31):
        namelen = 100000
    name = rng.choice([b'foo', b'x' * (namelen - 1) if 2 <= namelen < 3000 else b'nm', b'', b'a\0b', b'y' * 509, b'y' * 510, b'y' * 511, b'y' * 600])
    eol = rng.choice([b'\n', b'\n', b'\r\n'])
    sep = rng.choice([b' ', b' ', b'  '])
    hdr = b'suffix ' + sep.join(b'%d' % x for x in (kind, n, namelen, tablen, tablines)) + rng.choice([b'', b'', b' ', b' junk', b'x']) + eol
    body = name + eol
    for _ in range(rng.choice([0, 1, 2, 3])):
        body += rng.choice([b'tab line', b'1\tx', b'', b'z' * 600, b'a\0b']) + eol
    for _ in range(rng.choice([0, 1, 2])):
        body += b'%d %s' % (rng.randint(0, 5), rng.choice([b'1', b'2.5', b'x', b''])) + eol
    if rng.random() < 0.3:
        # a well-formed suffix first, so that the stack buffer holds stale data
        pre = b'suffix 0 1 8 0 0\nsstatus\n1 2\n'
        if rng.random() < 0.5:
            pre = b'suffix 0 0 %d 0 0\n' % 200 + b'q' * 199 + b'\n'
        return base + pre + hdr + body, s
    return base + hdr + body, s


def hostile_suffix_bin(rng):
    s = rand_sol(rng, maxn=3)
    s.sufs = []
    s.objno = 0
    base = bin_bytes(s)
    kind = rng.choice([0, 1, 4, 7, 15, 16, -1])
    n = rng.choice([0, 1, 2, 3, 2147483647, -1])
    namelen = rng.choice([0, 1, 2, 3, 4, 5, 100, 513, 1000, 100000, 1073741823, 1073741824, 2147483647, -1, -2147483648])
    tablen = rng.choice([0, 0, 0, 1, 2, 5, 10, 100, 1000, 100000, 2147483647, 2147483641, -1, -2147483648])
    if 0 < tablen < 2147483647 and tablen > 2000000 and 2 <= namelen < (1 << 30) and tablen + 2 * namelen + 6 < (1 << 31):
        tablen = 1000
    if 2000000 < namelen < (1 << 30) and 0 <= tablen and tablen + 2 * namelen + 6 < (1 << 31):
        namelen = 100000
    magic = rng.choice([b'\nSuffix\n'] * 6 + [b'\nsuffix\n', b'\nSuffix\0'])
    payload = rng.choice([b'foo\0', b'foo', b'abcdefgh', b'', b'x' * 100, b'nm\0' + b't' * 9 + b'\0', b'nm\0tab\0' + struct.pack('<ii', 1, 2)])
    b = magic + struct.pack('<iiii', kind, n, namelen, tablen) + payload
    L = rng.choice([len(b), len(b), 24, 23, 0, 100])
    return base + struct.pack('<I', L) + b + struct.pack('<I', rng.choice([L, L, L + 1])), s


INT_MIN, INT_MAX = -2147483648, 2147483647


def hostile_count(rng, true_n):
    """one count line of the Options block: negative / zero / equal / too large / INT_MIN / INT_MAX"""
    return rng.choice([-1, -1, -5, -true_n if true_n else -2, 0, true_n, true_n, true_n + 1, true_n + 10, INT_MIN, INT_MAX])


def hostile_counts_file(rng, binary):
    """a file whose Options block carries independently hostile count fields (ncons, nduals, nvars, nprimals), followed
    by plenty of well-formed numbers, so that a wrongly accepted count shows up as over-delivery.
    returns (bytes, nvars_true, ncons_true, counts)"""
    nd = rng.choice([0, 1, 2, 3])
    nv = rng.choice([0, 1, 2, 4])
    k = rng.randint(3, 9)
    opts = [rng.choice([0, 1, 2, 4, 7]) for _ in range(k)]
    if opts[1] == 3:
        opts[1] = 1
    which = rng.sample(range(4), rng.choice([1, 1, 2, 4]))
    counts = [nd + rng.choice([0, 2]), nd, nv + rng.choice([0, 2]), nv]
    true = list(counts)
    for i in which:
        counts[i] = hostile_count(rng, true[i])
    extra = rng.choice([0, 5, 40])
    vals = [float(i + 1) for i in range(nd + nv + extra)]
    if not binary:
        b = b'msg\n\nOptions\n%d\n' % k + b''.join(b'%d\n' % o for o in opts) + b''.join(b'%d\n' % c for c in counts)
        b += b''.join(fmt16(x) + b'\n' for x in vals)
        if rng.random() < 0.7:
            b += b'objno 0 0\n'
        return b, true[2], true[0], counts
    u32 = lambda x: struct.pack('<I', x & 0xffffffff)
    ob = b'Options' + b''.join(struct.pack('<i', x) for x in [k] + opts + counts)
    b = rec(b'binary') + rec(b'msg') + rec(b'') + rec(ob)
    # dual record: length field either what the reader will compute from the stated count, or what the data really is
    def vrec(stated, n_data):
        data = b''.join(struct.pack('<d', float(i + 1)) for i in range(n_data))
        L = rng.choice([(stated * 8) & 0xffffffff, (stated * 8) & 0xffffffff, len(data), 0])
        return u32(L) + data + u32(L)
    b += vrec(counts[1], rng.choice([nd, nd, nd + extra, 0]))
    b += vrec(counts[3], rng.choice([nv, nv, nv + extra, 0]))
    if rng.random() < 0.7:
        b += rec(struct.pack('<ii', 0, 0))
    b += b''.join(struct.pack('<d', 9.0) for _ in range(rng.choice([0, 0, 40])))
    return b, true[2], true[0], counts


PRINTF_DIRECTIVES = [b'%s', b'%n', b'%x', b'%d', b'%c', b'%2147483647d', b'%%', b'%s%s%s%s%s%s', b'%p', b'%ld', b'%f', b'%hhn', b'%*d', b'%1$s', b'%.3s']


def marker(rng):
    """a printf directive between recognisable delimiters: an error message may quote `@@…@@` verbatim, never expanded"""
    return b'@@' + rng.choice(PRINTF_DIRECTIVES) + b'@@'


def printf_hostile_text(rng):
    """a text file, well-formed except for one or two lines of a chosen kind (vector entry, int / real suffix entry, table line,
    suffix name / header, objno line, option / count line) that carry printf directives.  returns (bytes, nvars, ncons, kinds)"""
    nd, nv = rng.choice([1, 2, 3]), rng.choice([1, 2, 3])
    L = [('msg', b'solver message'), ('term', b''), ('optshdr', b'Options'), ('opt', b'3'), ('opt', b'1'), ('opt', b'1'), ('opt', b'0'),
         ('count', b'%d' % nd), ('count', b'%d' % nd), ('count', b'%d' % nv), ('count', b'%d' % nv)]
    L += [('dual', fmt16(rand_double(rng))) for _ in range(nd)]
    L += [('primal', fmt16(rand_double(rng))) for _ in range(nv)]
    L += [('objno', b'objno 0 %d' % rng.choice([0, 100, 567]))]
    L += [('sufhdr', b'suffix 0 2 8 24 4'), ('sufname', b'sstatus'), ('tabline', b'1 low'), ('tabline', b'2 upp'), ('tabline', b'3 equ'),
          ('tabline', b'4 btw'), ('ient', b'0 1'), ('ient', b'%d 3' % max(0, nv - 1))]
    L += [('sufhdr', b'suffix 5 2 5 0 0'), ('sufname', b'dual'), ('rent', b'0 0.5'), ('rent', b'1 -2.25e-07')]
    L += [('sufhdr', b'suffix 1 1 4 0 0'), ('sufname', b'iis'), ('ient', b'0 7')]
    kinds = []
    for _ in range(rng.choice([1, 1, 1, 2])):
        cat = rng.choice(['dual', 'primal', 'ient', 'ient', 'ient', 'rent', 'rent', 'tabline', 'sufname', 'sufhdr', 'objno', 'objno', 'opt', 'count', 'optshdr', 'msg'])
        idx = rng.choice([i for i, (c, _) in enumerate(L) if c == cat])
        old = L[idx][1]
        D = marker(rng)
        if cat in ('dual', 'primal'):
            new = rng.choice([D, b'1.5' + D, b'1e' + D, D + b'2', b'nan' + D, b'inf ' + D, old + b' ' + D])
        elif cat == 'ient':
            new = rng.choice([b'0 1e30 ' + D, b'0 1e30' + D, b'0 ' + D, D + b' 3', b'1 5' + D, b'0 -1e30 ' + D, b'0 nan ' + D, b'0 2147483648 ' + D, old + b' ' + D])
        elif cat == 'rent':
            new = rng.choice([b'0 1e400' + D, b'0 ' + D, D, b'0 2.5 ' + D, b'99999999999 1 ' + D, old + D])
        elif cat == 'tabline':
            new = rng.choice([old + D, D, D * 80, b''])
        elif cat == 'sufname':
            new = rng.choice([old + D, D, old[:-1] + D])
        elif cat == 'sufhdr':
            new = rng.choice([old + D, b'suffix ' + D, old.replace(b' 2 ', b' ' + D + b' ', 1), old + b' ' + D, b'suffix 0 1 99999999999 0 0 ' + D])
        elif cat == 'objno':
            new = rng.choice([b'objno ' + D + b' 0', b'objno 1e30' + D + b' 0', b'objno 0 1e30 ' + D, b'objn' + D, b'objno 0 ' + D, b'objno nan ' + D, old + b' ' + D])
        elif cat in ('opt', 'count'):
            new = rng.choice([D, b'77' + D, b'-1' + D, old + D, b'99999999999' + D])
        elif cat == 'optshdr':
            new = rng.choice([b'Options' + D, b'O' + D, b'Optio' + D])
        else:
            new = D + old
        L[idx] = (cat, new)
        kinds.append(cat)
    eol = rng.choice([b'\n', b'\n', b'\n', b'\r\n'])
    return b''.join(l + eol for _, l in L), nv, nd, kinds


def fixed_stream():
    """deterministic cases aimed at branches the random stream rarely reaches (ROUND 3 coverage audit): every prefix of a small
    text and of two small binary files (EOF at each structural position), and single targeted lines.
    returns list of (family, bytes, nvars, ncons)"""
    out = []
    text = (b'hi\n\nOptions\n5\n1\n3\n0\n1\n1\n1\n1\n1e-6\n0.5\n1.5\nobjno 0 0\nsuffix 0 1 4 8 2\nfoo\na b\nc d\n0 3\n'
            b'suffix 4 1 4 0 0\nbar\n0 2.5\n')
    for k in range(len(text) + 1):
        out.append(('sweep-text', text[:k], 1, 1))
    ob = b'Options' + b''.join(struct.pack('<i', x) for x in [5, 1, 3, 0, 1, 1, 1, 1]) + struct.pack('<d', 1e-6)
    suf1 = b'\nSuffix\n' + struct.pack('<iiii', 0, 1, 4, 4) + b'foo\0' + b'a b\0' + struct.pack('<ii', 0, 3)
    suf2 = b'\nSuffix\n' + struct.pack('<iiii', 4, 1, 4, 0) + b'bar\0' + struct.pack('<id', 0, 2.5)
    head = rec(b'binary') + rec(b'hi  ') + rec(b'    ') + rec(b'\b\bx ') + rec(b'') + rec(ob) + rec(struct.pack('<d', 0.5)) + rec(struct.pack('<d', 1.5))
    b1 = head + rec(struct.pack('<ii', 0, 7)) + rec(suf1) + rec(suf2)
    for k in range(len(b1) + 1):
        out.append(('sweep-bin', b1[:k], 1, 1))
    b2 = head + rec(struct.pack('<i', 3)) + struct.pack('<II', 1, 2) + b'xy'          # objno record with one integer, then trailing data
    for k in range(len(head), len(b2) + 1):
        out.append(('sweep-bin-objno4', b2[:k], 1, 1))
    for nopts in (2, 12, -1):
        ob2 = b'Options' + b''.join(struct.pack('<i', x) for x in [nopts, 1, 1, 0, 1, 1, 1, 1])
        out.append(('targeted:binary-nopts-%d' % nopts, rec(b'binary') + rec(b'm') + rec(b'') + rec(ob2) + rec(struct.pack('<d', 0.5)) + rec(struct.pack('<d', 1.5)), 1, 1))
    for nopts in (2, 10, 12, -1):
        out.append(('targeted:text-nopts-%d' % nopts, b'm\n\nOptions\n%d\n1\n1\n0\n1\n1\n1\n1\n1\n1\n1\n1\n1\n1\n1\n0.5\n1.5\n' % nopts, 1, 1))
    base = b'm\n\n'
    for name, body in [
        ('solve-code-below-int', b'objno 0 -1e30\n'),
        ('header-stray-cr', b'objno 0 0\nsuffix 0 1 4\rX 0 0\nfoo\n0 1\n'),
        ('header-crlf', b'objno 0 0\nsuffix 0 1 4 0 0\r\nfoo\r\n0 1\r\n'),
        ('name-cr-not-lf', b'objno 0 0\nsuffix 0 0 4 0 0\nfoo\rX\n'),
        ('table-last-line-cr-only', b'objno 0 0\nsuffix 0 0 4 5 2\nfoo\nab\n\r\n'),
        ('table-last-line-nul', b'objno 0 0\nsuffix 0 0 4 9 2\nfoo\nab\n\0abc\n'),
        ('table-last-line-too-long', b'objno 0 0\nsuffix 0 0 4 5 2\nfoo\nab\ncdefgh\n'),
        ('bad-vbtol-line', b'Options\n5\n1\n3\n0\n0\n0\n0\n0\nxyz\n'),
        ('only-O', b'O'),
        ('O-not-options', b'Other line\nobjno 0 0\n'),
    ]:
        out.append(('targeted:' + name, base + body, 0, 0))
    return out


def rand_policy(rng):
    def act():
        r = rng.random()
        if r < 0.4:
            return 'all'
        if r < 0.7:
            return 'while'
        if r < 0.85:
            return 'some:%d' % rng.choice([0, 1, 2, 5])
        return 'err:%d:%d' % (rng.choice([0, 1, 2, 50]), rng.choice([2, 3, 4, 5, 6, 7]))
    return (rng.choice([0] * 9 + [1, -3]), act(), act(), act())


def declared(rng, n):
    """0, smaller, equal, larger than the file's count"""
    r = rng.random()
    if r < 0.5:
        return n
    if r < 0.6:
        return 0
    if r < 0.75:
        return max(0, n - rng.choice([1, 2]))
    if r < 0.95:
        return n + rng.choice([1, 2, 10])
    return rng.choice([2147483647, 100000, 536870912])

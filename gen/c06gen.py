"""C06: case generator (op scripts for harness/h_prepro.cc and drv_c06) and an exact reference semantics of the flat
functional constraints (fractions.Fraction; floats only for transcendental functions), independent of the Lean model."""
import math
from fractions import Fraction as F

INF = float('inf')
LOGICAL = {'and', 'or', 'not', 'impl', 'alldiff', 'clin', 'cquad'}
UNARY_TR = ['exp', 'log', 'sin', 'cos', 'tan', 'asin', 'acos', 'atan', 'sinh', 'cosh', 'tanh', 'asinh', 'acosh', 'atanh']


class Rng:
    """splitmix64 (same as gen/nlgen.py)"""
    def __init__(self, seed):
        self.s = seed & 0xFFFFFFFFFFFFFFFF

    def next(self):
        self.s = (self.s + 0x9e3779b97f4a7c15) & 0xFFFFFFFFFFFFFFFF
        z = self.s
        z = ((z ^ (z >> 30)) * 0xbf58476d1ce4e5b9) & 0xFFFFFFFFFFFFFFFF
        z = ((z ^ (z >> 27)) * 0x94d049bb133111eb) & 0xFFFFFFFFFFFFFFFF
        return z ^ (z >> 31)

    def below(self, n):
        return self.next() % n

    def choice(self, lst):
        return lst[self.below(len(lst))]

    def chance(self, num, den):
        return self.below(den) < num

    def rint(self, lo, hi):
        return lo + self.below(hi - lo + 1)


# ------------------------------------------------------------------ number tokens
def tok(x):
    """Fraction (dyadic) | +-inf -> token"""
    if x == INF:
        return 'inf'
    if x == -INF:
        return '-inf'
    x = F(x)
    if x == 0:
        return '0'
    n, d = x.numerator, x.denominator
    e = 0
    while d % 2 == 0:
        d //= 2
        e -= 1
    assert d == 1, 'not dyadic: %r' % (x,)
    while n % 2 == 0:
        n //= 2
        e += 1
    return '%d' % n if e == 0 else '%dp%d' % (n, e)


def untok(t):
    if t == 'inf':
        return INF
    if t == '-inf':
        return -INF
    if t == 'nan':
        return None
    if 'p' in t:
        m, e = t.split('p')
        return F(int(m)) * F(2) ** int(e)
    return F(int(t))


def dyadic(r, maxm=40, maxk=3, int_bias=2):
    k = 0 if r.chance(int_bias, int_bias + 1) else r.rint(1, maxk)
    return F(r.rint(-maxm, maxm), 2 ** k)


# ------------------------------------------------------------------ boxes
def gen_box(r):
    """returns (lb, ub, is_int, cls, bits)"""
    cls = r.choice(['finite', 'finite', 'finite', 'neg', 'pos', 'zerocross', 'fixed', 'fixed', 'binary', 'binary', 'lower-inf',
                    'upper-inf', 'free', 'unit', 'tiny', 'pow2', 'huge', 'zero-edge'])
    is_int = r.chance(2, 5)
    bits = 10
    if cls == 'finite':
        a, b = sorted([dyadic(r), dyadic(r)])
    elif cls == 'neg':
        a, b = sorted([-abs(dyadic(r)) - F(1, 8), -abs(dyadic(r)) - F(1, 8)])
    elif cls == 'pos':
        a, b = sorted([abs(dyadic(r)) + F(1, 8), abs(dyadic(r)) + F(1, 8)])
    elif cls == 'zerocross':
        a, b = -abs(dyadic(r)) - F(1, 4), abs(dyadic(r)) + F(1, 4)
    elif cls == 'fixed':
        a = dyadic(r, int_bias=1)
        if r.chance(1, 3):
            a = F(r.choice([0, 1, -1, 2, -2]))
        b = a
    elif cls == 'binary':
        a, b = F(0), F(1)
        is_int = not r.chance(1, 8)
    elif cls == 'lower-inf':
        a, b = -INF, dyadic(r)
    elif cls == 'upper-inf':
        a, b = dyadic(r), INF
    elif cls == 'free':
        a, b = -INF, INF
    elif cls == 'unit':
        a, b = r.choice([(F(-1), F(1)), (F(0), F(1)), (F(-1), F(0)), (F(-1, 2), F(1, 2)), (F(1), INF), (F(0), INF), (F(1), F(1))])
    elif cls == 'tiny':
        a, b = sorted([F(r.rint(-3, 3), 2 ** 24), F(r.rint(-3, 3), 2 ** 22)])
        bits = 26
    elif cls == 'pow2':
        s = r.choice([1, -1])
        a, b = sorted([s * F(2) ** r.rint(-3, 4), s * F(2) ** r.rint(-3, 4)])
    elif cls == 'huge':
        c = r.choice([F(10) ** 20, F(2) ** 67, F(10) ** 20 / 2, F(10) ** 19])
        a, b = r.choice([(-c, c), (dyadic(r), c), (-c, dyadic(r)), (F(1), c), (-c, F(-1))])
        bits = 47
    else:  # zero-edge
        a, b = r.choice([(F(0), abs(dyadic(r)) + 1), (-abs(dyadic(r)) - 1, F(0)), (F(0), INF), (-INF, F(0)), (F(0), F(0))])
    return a, b, is_int, cls, bits


class Case:
    def __init__(self, cid):
        self.cid = cid
        self.vars = []      # (lb, ub, int, cls)
        self.ops = []       # token lists (strings), without leading 'op'
        self.kinds = []
        self.opts = []      # (name, 0|1) converter options set before the variables

    def lines(self):
        L = ['case %s' % self.cid]
        for nm, v in self.opts:
            L.append('opt %s %d' % (nm, v))
        for lb, ub, ii, _ in self.vars:
            L.append('var %s %s %d' % (tok(lb), tok(ub), 1 if ii else 0))
        for o in self.ops:
            L.append('op ' + ' '.join(o))
        return L


def is_pow2(x):
    if x in (INF, -INF) or x == 0:
        return False
    x = abs(F(x))
    n, d = x.numerator, x.denominator
    return (n & (n - 1)) == 0 and (d & (d - 1)) == 0


def gen_case(r, cid, focus=None):
    """one case: 2..6 original variables, 1..7 operations; arguments are original variables or `$k` results.
    Tracks a conservative mantissa-size estimate so that every double operation of the real code is exact."""
    c = Case(cid)
    for nm in ('eqresult', 'eqbinary', 'unnest'):
        if r.chance(1, 6):
            c.opts.append((nm, 0))
    nv = r.rint(2, 6)
    bits = []
    for _ in range(nv):
        lb, ub, ii, cls, b = gen_box(r)
        c.vars.append((lb, ub, ii, cls))
        bits.append(b)
    # refs: list of (token, bits, is_logical, orig_index or None)
    refs = [(str(i), bits[i], c.vars[i][3] == 'binary' or (c.vars[i][0] == c.vars[i][1] and c.vars[i][0] in (0, 1)), i)
            for i in range(nv)]
    log_touched = set()
    nops = r.rint(1, 7)
    kinds_all = ['lin', 'lin', 'quad', 'quad', 'pow', 'pow', 'pow', 'min', 'max', 'abs', 'abs', 'div', 'div', 'ifthen', 'clin', 'clin',
                 'clin', 'cquad', 'and', 'or', 'not', 'impl', 'alldiff', 'count', 'nvar', 'nconst', 'tr', 'expa', 'loga', 'powf', 'eqbin']
    for k in range(nops):
        if c.ops and r.chance(1, 10):
            # the same constraint again: the converter must find it through its map and return the same result variable
            j = r.below(len(c.ops))
            c.ops.append(list(c.ops[j]))
            c.kinds.append(c.ops[j][0])
            old = refs[nv + j]
            refs.append(('$%d' % (len(c.ops) - 1), old[1], old[2], None))
            continue
        kind = focus if (focus and r.chance(2, 3)) else r.choice(kinds_all)
        small = [x for x in refs if x[1] <= 14]
        logical = [x for x in refs if x[2]]

        def pick(pool):
            return r.choice(pool)

        def lin_terms(pool, n=None, allow_zero=True):
            n = n if n is not None else r.rint(1, 3)
            ts = []
            used = []
            for _ in range(n):
                v = pick(pool)
                if v[0] in used and not r.chance(1, 6):
                    continue
                used.append(v[0])
                co = dyadic(r, maxm=6, maxk=2)
                if co == 0 and not (allow_zero and r.chance(1, 3)):
                    co = F(1)
                ts.append((co, v))
            return ts

        def lin_tokens(ts):
            o = [str(len(ts))]
            for co, v in ts:
                o += [tok(co), v[0]]
            return o

        op = None
        rb = 10
        is_logical = False
        if kind == 'lin' and small:
            ts = lin_terms(small)
            c0 = dyadic(r, maxm=8) if r.chance(2, 3) else F(0)
            op = ['lin', tok(c0)] + lin_tokens(ts)
            rb = max([t[1][1] for t in ts] + [10]) + 9
        elif kind == 'quad' and small:
            ts = lin_terms(small, n=r.rint(0, 2))
            nq = r.rint(1, 2)
            qs = []
            for _ in range(nq):
                a = pick(small)
                b = a if r.chance(1, 3) else pick(small)
                co = dyadic(r, maxm=5, maxk=1)
                if co == 0:
                    co = F(-1)
                qs.append((co, a, b))
            c0 = dyadic(r, maxm=8) if r.chance(1, 2) else F(0)
            op = ['quad', tok(c0)] + lin_tokens(ts) + [str(len(qs))]
            for co, a, b in qs:
                op += [tok(co), a[0], b[0]]
            rb = 2 * max([t[1][1] for t in ts] + [q[1][1] for q in qs] + [q[2][1] for q in qs]) + 10
        elif kind == 'pow' and small:
            a = pick(small)
            p = r.choice([0, 1, 2, 2, 3, 3, 4, 5, -1, -1, -2, -3, 6])
            if p < 0:
                # 1/x^n is exact only for bounds in {0, +-2^k, +-inf}; a negative lower bound skips the computation
                def ok_neg(x):
                    if x[3] is None or x[3] in log_touched:
                        return False
                    lb, ub = c.vars[x[3]][0], c.vars[x[3]][1]
                    return lb < 0 or all(b in (0, INF) or is_pow2(b) for b in (lb, ub))
                cands = [x for x in small if ok_neg(x)]
                a = pick(cands) if cands else None
            if a is not None:
                if a[1] * max(abs(p), 1) > 50:
                    p = r.choice([0, 1, 2])
                op = ['pow', a[0], str(p)]
                rb = a[1] * max(abs(p), 1)
        elif kind == 'powf':
            # fractional exponent: only where the real result is exact (argument bounds in {0,1,inf}) or no narrowing happens
            cands = [x for x in refs if x[3] is not None and x[3] not in log_touched and
                     (c.vars[x[3]][0] < 0 or (c.vars[x[3]][0] in (0, 1) and c.vars[x[3]][1] in (0, 1, INF)))]
            if cands:
                a = pick(cands)
                p = r.choice([F(1, 2), F(3, 2), F(-1, 2), F(5, 4), F(-7, 4), F(1, 4)])
                op = ['pow', a[0], tok(p)]
                rb = 10
        elif kind in ('min', 'max', 'alldiff', 'count', 'nvar'):
            n = r.rint(1, 4) if kind != 'nvar' else r.rint(1, 5)
            if r.chance(1, 25):
                n = 0
            pool = refs if kind in ('min', 'max') else ([x for x in refs if x[1] <= 30] or refs)
            args = [pick(pool) for _ in range(n)]
            op = [kind, str(n)] + [a[0] for a in args]
            rb = max([a[1] for a in args] + [10])
            is_logical = kind == 'alldiff'
        elif kind == 'nconst':
            n = r.rint(0, 4)
            args = [pick(refs) for _ in range(n)]
            op = ['nconst', tok(dyadic(r, maxm=5)), str(n)] + [a[0] for a in args]
        elif kind == 'abs':
            a = pick(refs)
            op = ['abs', a[0]]
            rb = a[1]
        elif kind == 'div':
            # divisor: an original variable; if the quotient branch can be taken its bounds must be powers of two (exact quotients)
            def ok_div(x):
                if x[3] is None or x[3] in log_touched:
                    return False
                lb, ub = c.vars[x[3]][0], c.vars[x[3]][1]
                if lb in (INF, -INF) or ub in (INF, -INF) or lb * ub <= 0:
                    return True
                if abs(lb) >= F(10) ** 20 or abs(ub) >= F(10) ** 20:
                    return True
                return is_pow2(lb) and is_pow2(ub)
            cands = [x for x in refs if ok_div(x)]
            nums = [x for x in refs if x[1] <= 47]
            if cands and nums:
                a, b = pick(nums), pick(cands)
                op = ['div', a[0], b[0]]
                rb = a[1] + 8
        elif kind == 'ifthen' and logical:
            cnd, t, f = pick(logical), pick(refs), pick(refs)
            op = ['ifthen', cnd[0], t[0], f[0]]
            rb = max(t[1], f[1])
        elif kind == 'impl' and logical:
            op = ['impl', pick(logical)[0], pick(logical)[0], pick(logical)[0]]
            is_logical = True
        elif kind in ('and', 'or') and logical:
            n = r.rint(1, 4)
            op = [kind, str(n)] + [pick(logical)[0] for _ in range(n)]
            is_logical = True
        elif kind == 'not' and logical:
            op = ['not', pick(logical)[0]]
            is_logical = True
        elif kind == 'clin' and small:
            ts = lin_terms(small, allow_zero=False)
            if r.chance(1, 30):
                ts = []
            if len(ts) == 1:   # rhs/coef must be exact
                ts = [(r.choice([F(1), F(-1), F(2), F(-2), F(1, 2), F(-1, 2), F(4), F(1)]), ts[0][1])]
            ck = r.choice([-2, -1, 0, 0, 1, 2])
            rhs = dyadic(r, maxm=12, int_bias=1)
            op = ['clin', str(ck), tok(rhs)] + lin_tokens(ts)
            is_logical = True
        elif kind == 'eqbin' and logical:
            # var == const on a binary / fixed 0-1 variable: reuse, complement, impossible value, fixed result
            v = pick(logical)
            co = r.choice([F(1), F(1), F(2), F(-1), F(1, 2), F(-2)])
            rhs = co * r.choice([F(0), F(1), F(1), F(0), F(2), F(1, 2)])
            op = ['clin', '0', tok(rhs), '1', tok(co), v[0]]
            is_logical = True
        elif kind == 'cquad' and small and r.chance(1, 12):
            op = ['cquad', str(r.choice([-2, -1, 0, 0, 0, 1, 2])), tok(dyadic(r, maxm=3)), '0', '0']      # empty body
            is_logical = True
        elif kind == 'cquad' and small:
            ts = lin_terms(small, n=r.rint(0, 2), allow_zero=False)
            a = pick(small)
            b = a if r.chance(1, 3) else pick(small)
            co = dyadic(r, maxm=4, maxk=1)
            if co == 0:
                co = F(1)
            ck = r.choice([-2, -1, 0, 1, 2])
            rhs = dyadic(r, maxm=30, int_bias=1)
            op = ['cquad', str(ck), tok(rhs)] + lin_tokens(ts) + ['1', tok(co), a[0], b[0]]
            is_logical = True
        elif kind == 'tr':
            f = r.choice(UNARY_TR)
            a = pick(refs)
            if f == 'log':
                if a[3] is None:
                    a = refs[r.below(nv)]
                log_touched.add(a[3])
                refs[a[3]] = (refs[a[3]][0], 53, refs[a[3]][2], refs[a[3]][3])
            op = [f, a[0]]
            rb = 53
        elif kind == 'expa':
            op = ['expa', pick(refs)[0], tok(abs(dyadic(r, maxm=9)) + F(1, 2))]
            rb = 53
        elif kind == 'loga':
            a = refs[r.below(nv)]
            log_touched.add(a[3])
            op = ['loga', a[0], tok(abs(dyadic(r, maxm=9)) + F(3, 2))]
            rb = 53
        if op is None or rb > 52:
            if op is None or op[0] not in UNARY_TR + ['expa', 'loga']:
                if op is not None and rb > 52:
                    op = None
            if op is None:
                continue
        c.ops.append(op)
        c.kinds.append(op[0])
        refs.append(('$%d' % (len(c.ops) - 1), min(rb, 53), is_logical, None))
    return c


# ------------------------------------------------------------------ reference semantics (exact)
class Undefined(Exception):
    pass


def parse_lin(t, i, ref):
    k = int(t[i]); i += 1
    ts = []
    for _ in range(k):
        ts.append((untok(t[i]), ref(t[i + 1])))
        i += 2
    return ts, i


def parse_quad(t, i, ref):
    k = int(t[i]); i += 1
    qs = []
    for _ in range(k):
        qs.append((untok(t[i]), ref(t[i + 1]), ref(t[i + 2])))
        i += 3
    return qs, i


def cmp_kind(kind, body, rhs):
    return {-2: body < rhs, -1: body <= rhs, 0: body == rhs, 1: body >= rhs, 2: body > rhs}[kind]


def fl(x):
    """float of an exact value, must be exact"""
    if isinstance(x, float):
        return x
    f = float(x)
    if F(f) != x:
        raise Undefined()
    return f


def fr(x):
    if isinstance(x, float):
        if math.isnan(x) or math.isinf(x):
            raise Undefined()
        return F(x)
    return x


def ev(t, val, ref=int):
    """value of the functional constraint given by tokens `t` (as in the op / definition lines) at valuation `val`
    (list/dict var -> Fraction).  Semantics follow include/mp/flat/constr_eval.h (thresholds at 1/2 for logical arguments).
    Raises Undefined where the expression has no value."""
    k = t[0]

    def x(tokn):
        v = val[ref(tokn)]
        if v is None or v in (INF, -INF):
            raise Undefined()
        return v
    if k == 'lin':
        ts, _ = parse_lin(t, 2, ref)
        return untok(t[1]) + sum(c * x_(val, v) for c, v in ts)
    if k == 'quad':
        ts, i = parse_lin(t, 2, ref)
        qs, _ = parse_quad(t, i, ref)
        return untok(t[1]) + sum(c * x_(val, v) for c, v in ts) + sum(c * x_(val, a) * x_(val, b) for c, a, b in qs)
    if k == 'pow':
        b, p = x(t[1]), untok(t[2])
        if p.denominator == 1:
            if b == 0 and p < 0:
                raise Undefined()
            return fr(b) ** int(p)
        if b < 0:
            raise Undefined()
        if b == 0 and p < 0:
            raise Undefined()
        try:
            return F(math.pow(fl(b), float(p)))
        except OverflowError:
            raise Undefined()
    if k in ('min', 'max'):
        a = [x(s) for s in t[2:2 + int(t[1])]]
        if not a:
            return INF if k == 'min' else -INF
        return min(a) if k == 'min' else max(a)
    if k == 'and':
        return F(int(all(x(s) >= F(1, 2) for s in t[2:2 + int(t[1])])))
    if k == 'or':
        return F(int(any(x(s) >= F(1, 2) for s in t[2:2 + int(t[1])])))
    if k == 'not':
        return F(int(x(t[1]) < F(1, 2)))
    if k == 'count':
        return F(sum(1 for s in t[2:2 + int(t[1])] if x(s) >= F(1, 2)))
    if k == 'alldiff':
        a = [x(s) for s in t[2:2 + int(t[1])]]
        return F(int(len(set(a)) == len(a)))
    if k == 'nvar':
        a = [x(s) for s in t[2:2 + int(t[1])]]
        if not a:
            raise Undefined()
        return F(sum(1 for v in a[1:] if v == a[0]))
    if k == 'nconst':
        kk = untok(t[1])
        return F(sum(1 for s in t[3:3 + int(t[2])] if x(s) == kk))
    if k == 'abs':
        return abs(x(t[1]))
    if k == 'div':
        a, b = x(t[1]), x(t[2])
        if b == 0:
            raise Undefined()
        return fr(a) / fr(b)
    if k == 'ifthen':
        return x(t[2]) if x(t[1]) >= F(1, 2) else x(t[3])
    if k == 'impl':
        i, c1, c2 = x(t[1]), x(t[2]), x(t[3])
        return F(int((i >= F(1, 2) and c1 >= F(1, 2)) or (i < F(1, 2) and c2 >= F(1, 2))))
    if k == 'clin':
        ts, _ = parse_lin(t, 3, ref)
        return F(int(cmp_kind(int(t[1]), sum(c * x_(val, v) for c, v in ts), untok(t[2]))))
    if k == 'cquad':
        ts, i = parse_lin(t, 3, ref)
        qs, _ = parse_quad(t, i, ref)
        body = sum(c * x_(val, v) for c, v in ts) + sum(c * x_(val, a) * x_(val, b) for c, a, b in qs)
        return F(int(cmp_kind(int(t[1]), body, untok(t[2]))))
    if k in UNARY_TR or k in ('expa', 'loga'):
        a = fl(x(t[1]))
        try:
            if k == 'expa':
                return F(math.pow(float(untok(t[2])), a))
            if k == 'loga':
                if a <= 0:
                    raise Undefined()
                return F(math.log(a) / math.log(float(untok(t[2]))))
            if k == 'log' and a <= 0:
                raise Undefined()
            if k in ('asin', 'acos') and abs(a) > 1:
                raise Undefined()
            if k == 'acosh' and a < 1:
                raise Undefined()
            if k == 'atanh' and abs(a) >= 1:
                raise Undefined()
            return F(getattr(math, k)(a))
        except (OverflowError, ValueError):
            raise Undefined()
    raise KeyError(k)


def x_(val, v):
    r = val[v]
    if r is None or r in (INF, -INF):
        raise Undefined()
    return r


# ------------------------------------------------------------------ end-to-end models (NL level), for checks/c06.py stage 4
def gen_e2e_model(r):
    """small NL model with logical structure under negations / implications / iff over comparisons of
    linear, abs, min/max, product, if-then-else and count expressions; returns (nlgen.Model, grids)."""
    import nlgen as N
    m = N.Model()
    grids = []
    nv = r.rint(2, 3)
    for _ in range(nv):
        k = r.below(6)
        if k <= 2:
            lo, hi = r.choice([(0, 5), (0, 4), (-3, 3), (1, 6), (-2, 4), (-4, -1), (-5, 0)])
            m.var(lo, hi, True); grids.append([F(v) for v in range(lo, hi + 1)])
        elif k == 3:
            m.var(0, 1, True); grids.append([F(0), F(1)])
        else:
            lo, hi = r.choice([(0, 3), (-2, 2), (0, 4)])
            m.var(lo, hi, False); grids.append([F(lo) + F(i, 2) for i in range(2 * (hi - lo) + 1)])

    def v():
        return ('v', r.below(nv))

    def num(d):
        k = r.below(10) if d > 0 else r.below(4)
        if k <= 1:
            return v()
        if k == 2:
            return ('+', v(), v())
        if k == 3:
            return ('-', v(), ('n', F(r.rint(0, 3))))
        if k == 4:
            return ('abs', ('-', num(d - 1), ('n', F(r.rint(0, 3)))))
        if k == 5:
            return (r.choice(['min', 'max']), [num(d - 1), num(d - 1)])
        if k == 6:
            return ('*', v(), v())
        if k == 7:
            return ('if', log(d - 1), num(d - 1), num(d - 1))
        if k == 8:
            return ('count', [log(d - 1) for _ in range(r.rint(2, 3))])
        return ('*', ('n', F(r.choice([2, -1, -2]))), v())

    def atom(d):
        op = r.choice(['ge', 'ge', 'le', 'le', 'gt', 'lt', 'eq', 'ne'])
        return (op, num(d), ('n', F(r.rint(-1, 5))))

    def log(d):
        if d <= 0:
            return atom(0)
        k = r.below(12)
        if k <= 2:
            return atom(d)
        if k <= 4:
            return ('not', log(d - 1))
        if k <= 6:
            return (r.choice(['and', 'or']), log(d - 1), log(d - 1))
        if k == 7:
            return (r.choice(['forall', 'exists']), [log(d - 1) for _ in range(r.rint(2, 3))])
        if k <= 9:
            return ('implies', log(d - 1), log(d - 1), log(d - 1) if r.chance(1, 2) else ('T',))
        return ('iff', log(d - 1), log(d - 1))

    for _ in range(r.rint(1, 2)):
        e = log(r.rint(1, 3))
        if r.chance(1, 2):
            e = ('not', e)
        m.lcon(e)
    if r.chance(1, 3):
        m.con(None, F(r.rint(2, 8)), lin={}, nl=num(2))
    # nonlinear functions: integer powers anywhere (exact reference semantics); transcendental functions only in the
    # objective, so that NL feasibility (decided exactly) does not depend on them
    cfg = {'accept': 'ALL', 'options': []}
    if r.chance(1, 4):
        k = r.choice([2, 3, 2, 4, -1, -2])
        m.lcon((r.choice(['ge', 'le', 'lt', 'gt', 'ne']), ('pow', v(), ('n', F(k))), ('n', F(r.rint(0, 9)))))
    if r.chance(1, 3):
        f = r.choice(['exp', 'log', 'sin', 'cos', 'tan', 'atan', 'sinh', 'cosh', 'tanh', 'asinh', 'log10', 'sqrt', 'asin', 'acos',
                      'acosh', 'atanh', 'cpow'])
        arg = r.choice([v(), ('+', v(), ('n', F(1))), ('*', ('n', F(1, 2)), v()), ('-', ('n', F(0)), v())])
        e = ('cpow', ('n', F(r.choice([2, 3]))), arg) if f == 'cpow' else (f, arg)
        if r.chance(1, 2):
            e = ('+', e, num(1))
        m.obj(r.choice(['min', 'max']), lin={}, nl=e)
        if r.chance(1, 2):
            cfg['accept'] = 'LinConRange,LinConLE,LinConEQ,LinConGE,PLConstraint' + r.choice(['', ',AbsConstraint,MaxConstraint,MinConstraint'])
    elif r.chance(1, 2):
        m.obj('min', lin={0: 1}, nl=num(1) if r.chance(1, 2) else None)
    for o in ('cvt:pre:eqresult=0', 'cvt:pre:eqbinary=0', 'cvt:pre:unnest=0', 'cvt:pre:all=0'):
        if r.chance(1, 10):
            cfg['options'].append(o)
    m.c06cfg = cfg
    return m, grids

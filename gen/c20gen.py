"""C20 generator: NL models that exercise many conversion kinds, acceptance subsets, name modes.

All random choices come from one `nlgen.Rng` (seeded from VERIF_SEED by the check).
"""
from fractions import Fraction as F
from nlgen import Model, Rng

# type names as the recording ModelAPI prints them (RECSOLVER_ACCEPT vocabulary)
LIN = ['LinConRange', 'LinConLE', 'LinConEQ', 'LinConGE']
QUAD = ['QuadConRange', 'QuadConLE', 'QuadConEQ', 'QuadConGE']
FUNC = ['MaxConstraint', 'MinConstraint', 'AbsConstraint', 'AndConstraint', 'OrConstraint', 'NotConstraint',
        'DivConstraint', 'IfThenConstraint', 'ImplicationConstraint', 'AllDiffConstraint',
        'NumberofConstConstraint', 'NumberofVarConstraint', 'CountConstraint',
        'ExpConstraint', 'ExpAConstraint', 'LogConstraint', 'LogAConstraint', 'PowConstraint',
        'SinConstraint', 'CosConstraint', 'TanConstraint', 'PLConstraint']
COND = ['CondLinConEQ', 'CondLinConLE', 'CondLinConLT', 'CondLinConGE', 'CondLinConGT',
        'CondQuadConEQ', 'CondQuadConLE', 'CondQuadConLT', 'CondQuadConGE', 'CondQuadConGT']
IND = ['IndicatorLinConLE', 'IndicatorLinConEQ', 'IndicatorLinConGE',
       'IndicatorQuadConLE', 'IndicatorQuadConEQ', 'IndicatorQuadConGE']
OTHER = ['LinearFunctionalConstraint', 'QuadraticFunctionalConstraint', 'SOS1Constraint', 'SOS2Constraint']
ALLTYPES = LIN + QUAD + FUNC + COND + IND + OTHER

HOSTILE = ['q"uote', 'back\\slash', 'tab\there', 'ctl\x01x', 'end\\', '"', 'a\\"b', 'nl\\n', 'u\\u0041', 'cr\rx', 'ff\x0cx', 'del\x7f']
UNICODE = ['café', 'αβ', 'x→y', '\U0001F600v']
EXTREME = [F(10) ** 30, F(10) ** 300, F(1, 10 ** 6), F(123456789, 1000), -F(10) ** 25, F(1, 2 ** 40), F(3, 7)]


def small(r):
    return F(r.rint(-6, 6))


def coef(r, extreme):
    if extreme and r.chance(1, 6):
        return r.choice(EXTREME)
    c = r.rint(-5, 5)
    if c == 0:
        c = 1
    if r.chance(1, 5):
        return F(c, r.choice([2, 4, 8]))
    return F(c)


def lin_expr(r, nv, extreme, k=None):
    k = k or r.rint(1, min(3, nv))
    js = []
    while len(js) < k:
        j = r.below(nv)
        if j not in js:
            js.append(j)
    return {j: coef(r, extreme) for j in js}


def lin_tree(r, nv, extreme):
    """a linear expression as an NL expression tree"""
    le = lin_expr(r, nv, extreme)
    terms = [('*', ('n', c), ('v', j)) if c != 1 else ('v', j) for j, c in le.items()]
    e = terms[0]
    for t in terms[1:]:
        e = ('+', e, t)
    if r.chance(1, 3):
        e = ('+', e, ('n', small(r)))
    return e


def num_expr(r, nv, depth, extreme, feats):
    """numeric expression; records features used in `feats`"""
    if depth <= 0 or r.chance(1, 4):
        return lin_tree(r, nv, extreme)
    if extreme and r.chance(1, 12):
        # 1e300 * (1e300 * x + ...): the flattener's coefficient arithmetic overflows to +-inf
        feats.add('overflow')
        return ('*', ('n', F(10) ** 300), ('+', ('*', ('n', r.choice([1, -1]) * F(10) ** 300), ('v', r.below(nv))), lin_tree(r, nv, False)))
    k = r.below(13)
    sub = lambda: num_expr(r, nv, depth - 1, extreme, feats)
    if k == 0:
        feats.add('abs'); return ('abs', sub())
    if k == 1:
        feats.add('max'); return ('max', [sub() for _ in range(r.rint(2, 3))])
    if k == 2:
        feats.add('min'); return ('min', [sub() for _ in range(r.rint(2, 3))])
    if k == 3:
        feats.add('quad'); return ('*', ('v', r.below(nv)), ('v', r.below(nv)))
    if k == 4:
        feats.add('if'); return ('if', log_expr(r, nv, depth - 1, extreme, feats), sub(), sub())
    if k == 5:
        feats.add('count'); return ('count', [log_expr(r, nv, depth - 1, extreme, feats) for _ in range(r.rint(2, 3))])
    if k == 6:
        feats.add('numberof')
        if r.chance(1, 3):
            feats.add('numberof_var')
            return ('numberof', ('v', r.below(nv)), [('v', r.below(nv)) for _ in range(r.rint(2, 3))])
        return ('numberof', ('n', F(r.rint(0, 3))), [('v', r.below(nv)) for _ in range(r.rint(2, 3))])
    if k == 7:
        feats.add('pow'); return ('pow', ('v', r.below(nv)), ('n', F(r.choice([2, 3, 4]))))
    if k == 8:
        feats.add('exp')
        if r.chance(1, 2):
            f = r.choice(['tan', 'asin', 'acos', 'atan', 'sinh', 'cosh', 'tanh', 'asinh', 'acosh', 'atanh', 'log10', 'sqrt'])
            feats.add('fn_' + f)
            return (f, ('v', r.below(nv)))
        if r.chance(1, 4):
            feats.add('expA')           # constant base ^ variable, log of base 10 etc.
            return ('pow', ('n', F(r.choice([2, 3, 10]))), ('v', r.below(nv)))
        return (r.choice(['exp', 'log', 'sin', 'cos']), ('v', r.below(nv)))
    if k == 9:
        feats.add('pl')
        n = r.rint(2, 4)
        bps = sorted({F(r.rint(-4, 8)) for _ in range(n - 1)})
        sl = [F(r.rint(-3, 3)) for _ in range(len(bps) + 1)]
        return ('pl', sl, bps, r.below(nv))
    if k == 10:
        feats.add('div'); return ('/', sub(), ('+', ('v', r.below(nv)), ('n', F(20))))
    if k == 11:
        feats.add('sum'); return ('sum', [sub() for _ in range(r.rint(3, 4))])
    feats.add('neg'); return ('neg', sub())


def log_expr(r, nv, depth, extreme, feats):
    if depth <= 0 or r.chance(1, 3):
        rel = r.choice(['lt', 'le', 'eq', 'ge', 'gt', 'ne'])
        feats.add('cmp_' + rel)
        return (rel, lin_tree(r, nv, extreme), ('n', small(r)))
    k = r.below(11)
    sub = lambda: log_expr(r, nv, depth - 1, extreme, feats)
    if k == 0:
        feats.add('or'); return ('or', sub(), sub())
    if k == 1:
        feats.add('and'); return ('and', sub(), sub())
    if k == 2:
        feats.add('not'); return ('not', sub())
    if k == 3:
        feats.add('implies'); return ('implies', sub(), sub(), sub() if r.chance(1, 3) else ('T',))
    if k == 4:
        feats.add('iff'); return ('iff', sub(), sub())
    if k == 5:
        feats.add('forall'); return ('forall', [sub() for _ in range(r.rint(3, 4))])
    if k == 6:
        feats.add('exists'); return ('exists', [sub() for _ in range(r.rint(3, 4))])
    if k == 7:
        feats.add('atleast')
        return (r.choice(['atleast', 'atmost', 'exactly']), ('n', F(r.rint(0, 2))),
                ('count', [sub() for _ in range(r.rint(2, 3))]))
    if k == 8 and r.chance(1, 3):
        feats.add('alldiff'); return ('alldiff', [('v', r.below(nv)) for _ in range(r.rint(2, 3))])
    if k in (8, 9):
        feats.add('cmp_nl')
        return (r.choice(['le', 'ge', 'eq']), num_expr(r, nv, depth - 1, extreme, feats), ('n', small(r)))
    feats.add('quadcmp')
    return (r.choice(['le', 'ge', 'lt', 'gt', 'eq']), ('*', ('v', r.below(nv)), ('v', r.below(nv))), ('n', small(r)))


def make_names(r, mode, n, prefix):
    """mode: 'benign' | 'hostile' | 'unicode'"""
    out = []
    for i in range(n):
        base = '%s%d' % (prefix, i)
        if mode == 'hostile' and r.chance(1, 3):
            base = base + r.choice(HOSTILE)
        elif mode == 'unicode' and r.chance(1, 2):
            base = base + r.choice(UNICODE)
        elif mode == 'latin1' and r.chance(1, 2):
            base = base + r.choice(['caf\u00e9', '\u00f1', '\u00fc\u00df'])
        elif mode == 'benign' and r.chance(1, 4):
            base = base + r.choice(['[1]', "['a','b']", '_x', '.y', ' z', '{k}', ':c'])
        out.append(base)
    return out


def gen_model(r, size='small', extreme=False, infinite=False, names='benign'):
    """returns (Model, features:set)"""
    feats = set()
    m = Model()
    nv = r.rint(2, 5 if size == 'small' else 9)
    vnames = make_names(r, names, nv, 'x')
    for j in range(nv):
        integer = r.chance(1, 3)
        lb, ub = F(r.rint(-5, 0)), F(r.rint(1, 9))
        if integer and r.chance(1, 2):
            lb, ub = F(0), F(1)
        if infinite and r.chance(1, 3):
            if r.chance(1, 2):
                lb = None
            if r.chance(1, 2):
                ub = None
            feats.add('infbound')
        if extreme and r.chance(1, 5):
            ub = F(10) ** r.choice([20, 300])
            feats.add('extreme_bound')
        m.var(lb, ub, integer, name=vnames[j])
    nobj = r.choice([0, 1, 1, 1, 2, 3])
    onames = make_names(r, names, nobj, 'ob')
    for k in range(nobj):
        nl = None
        if r.chance(1, 2):
            nl = num_expr(r, nv, 2, extreme, feats)
            feats.add('nlobj')
        m.obj(r.choice(['min', 'max']), lin_expr(r, nv, extreme) if r.chance(3, 4) else {}, nl=nl, name=onames[k])
    if nobj > 1:
        feats.add('multiobj')
    nc = r.rint(0, 4 if size == 'small' else 8)
    cnames = make_names(r, names, nc, 'c')
    for k in range(nc):
        kind = r.below(5)
        lo, hi = small(r), None
        if kind == 0:
            hi = lo + F(r.rint(1, 6))
        elif kind == 1:
            hi = lo
        elif kind == 2:
            lo, hi = None, small(r)
        elif kind == 4:
            lo = hi = None
            if not infinite:
                lo = small(r)
        if extreme and r.chance(1, 6) and lo is not None:
            hi = F(10) ** 30
        nl = None
        if r.chance(1, 2):
            nl = num_expr(r, nv, 2, extreme, feats)
            feats.add('nlcon')
        lin = lin_expr(r, nv, extreme) if (nl is None or r.chance(1, 2)) else {}
        m.con(lo, hi, lin, nl=nl, name=cnames[k])
    nl_ = r.rint(0, 3 if size == 'small' else 6)
    lnames = make_names(r, names, nl_, 'lc')
    for k in range(nl_):
        m.lcon(log_expr(r, nv, 2, extreme, feats), name=lnames[k])
        feats.add('logical')
    return m, feats


def gen_accept(r):
    """acceptance configuration: ('default'|'ALL'|list of type names)"""
    k = r.below(6)
    if k == 0:
        return None                      # recsolver default: the four linear types
    if k == 1:
        return 'ALL'
    acc = list(LIN)
    if k == 2:
        acc = ['LinConLE', 'LinConEQ', 'LinConGE']       # no native range constraints: Range -> Rhs conversion
    pool = QUAD + FUNC + COND + IND + OTHER
    for t in pool:
        if r.chance(1, 3 if k >= 4 else 6):
            acc.append(t)
    if r.chance(1, 3):
        # no native range rows (linear and quadratic): proper ranges lb < ub go through Range2Slk (range -> equality + slack)
        acc = [t for t in acc if t not in ('LinConRange', 'QuadConRange')]
    return acc


# ------------------------------------------------------------------ conic family
CONES = ['QuadraticConeConstraint', 'RotatedQuadraticConeConstraint', 'ExponentialConeConstraint']


def sq(j):
    return ('pow', ('v', j), ('n', F(2)))


def nsum(terms):
    if len(terms) == 1:
        return terms[0]
    if len(terms) == 2:
        return ('+', terms[0], terms[1])
    return ('sum', terms)


def scaled(c, e):
    return e if c == 1 else ('*', ('n', F(c)), e)


def gen_conic_model(r, names='benign'):
    """cone rows (x^2+y^2 <= z^2 with z >= 0; rotated x^2 <= 2yz; sqrt forms) + a (convex separable / other) QP objective.
    returns (Model, features)"""
    feats = {'conic'}
    m = Model()
    nv = r.rint(3, 6)
    vnames = make_names(r, names, nv, 'x')
    nonneg = set()
    for j in range(nv):
        lb, ub = None, None
        k = r.below(4)
        if k == 0:
            lb = F(0); nonneg.add(j)
        elif k == 1:
            lb, ub = F(0), F(r.rint(1, 9)); nonneg.add(j)
        elif k == 2:
            lb, ub = F(-r.rint(1, 5)), F(r.rint(1, 9))
        m.var(lb, ub, False, name=vnames[j])
    # make sure there are enough non-negative variables for cone heads
    while len(nonneg) < 2:
        j = r.below(nv)
        m.vars[j]['lb'] = F(0)
        nonneg.add(j)
    nn = sorted(nonneg)
    ncone = r.choice([0, 1, 1, 1, 2])
    cnames = make_names(r, names, ncone + 2, 'c')
    for k in range(ncone):
        kind = r.below(5)
        others = [j for j in range(nv)]
        if kind == 4:                      # exponential cone: exp(x) <= z
            z = r.choice(nn)
            x = r.choice([j for j in others if j != z])
            m.con(None, F(0), {z: F(-1)}, nl=('exp', ('v', x)), name=cnames[k])
            feats.add('expcone')
            continue
        if kind == 0:                      # standard SOC: sum c_i x_i^2 <= c_z z^2
            z = r.choice(nn)
            xs = [j for j in others if j != z]
            xs = xs[:r.rint(1, len(xs))]
            cz = r.choice([1, 1, 4, 9])
            lhs = [scaled(r.choice([1, 1, 4]), sq(j)) for j in xs] + [('neg', scaled(cz, sq(z)))]
            m.con(None, F(0), {}, nl=nsum(lhs), name=cnames[k])
            feats.add('soc')
        elif kind == 1:                    # z^2 >= sum x_i^2 written the other way round
            z = r.choice(nn)
            xs = [j for j in others if j != z][:r.rint(1, nv - 1)]
            m.con(F(0), None, {}, nl=('-', sq(z), nsum([sq(j) for j in xs])), name=cnames[k])
            feats.add('soc_ge')
        elif kind == 2 and len(nn) >= 2:   # rotated: sum x_i^2 <= 2 y z
            y, z = nn[0], nn[1]
            xs = [j for j in others if j not in (y, z)][:r.rint(1, max(1, nv - 2))]
            if not xs:
                xs = [y]
            m.con(None, F(0), {}, nl=('-', nsum([sq(j) for j in xs]), ('*', ('n', F(2)), ('*', ('v', y), ('v', z)))), name=cnames[k])
            feats.add('rsoc')
        else:                              # sqrt(sum x_i^2) <= z
            z = r.choice(nn)
            xs = [j for j in others if j != z][:r.rint(2, max(2, nv - 1))]
            m.con(None, F(0), {z: F(-1)}, nl=('sqrt', nsum([sq(j) for j in xs] + ([('n', F(r.rint(1, 4)))] if r.chance(1, 3) else []))), name=cnames[k])
            feats.add('soc_sqrt')
    if r.chance(1, 2):
        m.con(small(r), None, lin_expr(r, nv, False), name=cnames[-1])
    if r.chance(1, 4):
        m.con(None, F(r.rint(1, 20)), {}, nl=nsum([sq(j) for j in range(min(2, nv))]), name=cnames[-2])   # a non-cone convex quadratic row
        feats.add('quadcon')
    ok = r.below(7)
    oname = make_names(r, names, 1, 'ob')[0]
    js = list(range(nv))[:r.rint(1, nv)]
    if ok <= 2:                            # convex separable: min sum c_i x_i^2
        m.obj('min', {}, nl=nsum([scaled(r.choice([1, 1, 2, 3]), sq(j)) for j in js]), name=oname)
        feats.add('qpobj_sep_convex')
    elif ok == 3:                          # max -sum c_i x_i^2 (convex sign for max)
        m.obj('max', {}, nl=('neg', nsum([scaled(r.choice([1, 2]), sq(j)) for j in js])), name=oname)
        feats.add('qpobj_sep_concave_max')
    elif ok == 4:                          # separable + linear part, or non-separable
        if r.chance(1, 2):
            m.obj('min', lin_expr(r, nv, False), nl=nsum([sq(j) for j in js]), name=oname)
            feats.add('qpobj_sep_plus_lin')
        else:
            m.obj('min', {}, nl=('+', sq(js[0]), ('*', ('v', 0), ('v', nv - 1))), name=oname)
            feats.add('qpobj_nonsep')
    elif ok == 5:
        m.obj(r.choice(['min', 'max']), lin_expr(r, nv, False), name=oname)
        feats.add('linobj')
    return m, feats


def gen_conic_config(r):
    """-> (accept list, options)"""
    acc = list(LIN)
    if r.chance(3, 4):
        acc += QUAD
    if r.chance(2, 3):
        acc += [c for c in CONES if r.chance(3, 4)]
    opts = []
    k = r.below(4)
    if k < 2:
        opts.append('cvt:quadobj=1')
    elif k == 2:
        opts.append('cvt:quadobj=0')
    k = r.below(5)
    if k < 3:
        opts.append('cvt:socp=%d' % k)
    k = r.below(6)
    if k < 3:
        opts.append('cvt:socp2qc=%d' % k)
    return acc, opts


# ------------------------------------------------------------------ round 3: defined variables, SOS suffixes, complementarity rows
def add_defvars(r, m, feats, extreme=False):
    """1..3 common expressions (V segments), used in constraints, objectives and logical constraints"""
    nv = len(m.vars)
    ndv = r.rint(1, 3)
    for k in range(ndv):
        nl = None
        kk = r.below(4)
        if kk == 0:
            nl = ('abs', ('v', r.below(nv)))
        elif kk == 1:
            nl = ('*', ('v', r.below(nv)), ('v', r.below(nv)))
        elif kk == 2 and k > 0:
            nl = ('+', ('dv', r.below(k)), ('n', small(r)))          # a defined variable using an earlier one
        m.defvars.append({'lin': lin_expr(r, nv, extreme, k=r.rint(1, min(2, nv))) if (nl is None or r.chance(1, 2)) else {}, 'nl': nl})
    feats.add('defvar')
    used = 0
    for c in m.cons:
        if r.chance(1, 2):
            dv = ('dv', r.below(ndv))
            c['nl'] = dv if c['nl'] is None else ('+', c['nl'], dv)
            used += 1
    for o in m.objs:
        if r.chance(1, 2):
            dv = ('*', ('n', F(r.rint(1, 3))), ('dv', r.below(ndv)))
            o['nl'] = dv if o['nl'] is None else ('+', o['nl'], dv)
            used += 1
    if r.chance(1, 2) or not used:
        m.lcon((r.choice(['le', 'ge']), ('dv', r.below(ndv)), ('n', small(r))), name='lcdv')
        feats.add('defvar_in_logical')
    if r.chance(1, 4):
        feats.add('defvar_unused')
        m.defvars.append({'lin': {0: F(1)}, 'nl': None})     # never referenced


def add_sos(r, m, feats):
    """SOS1/SOS2 sets through the .sosno/.ref suffixes (bounded variables, so that a MIP conversion exists)"""
    nv = len(m.vars)
    sosno, ref = {}, {}
    free = list(range(nv))
    nset = r.rint(1, 2)
    for k in range(nset):
        if len(free) < 2:
            break
        sz = r.rint(2, min(4, len(free)))
        grp, free = free[:sz], free[sz:]
        typ = r.choice([1, 2])
        feats.add('sos%d' % typ)
        for w, j in enumerate(grp):
            sosno[j] = (k + 1) if typ == 1 else -(k + 1)
            ref[j] = F(w + 1) if r.chance(4, 5) else F(r.rint(1, 9))
            if m.vars[j]['lb'] is None:
                m.vars[j]['lb'] = F(0)
            if m.vars[j]['ub'] is None:
                m.vars[j]['ub'] = F(r.rint(2, 9))
    m.suffixes.append({'name': 'sosno', 'kind': 0, 'float': False, 'vals': sosno})
    m.suffixes.append({'name': 'ref', 'kind': 0, 'float': True, 'vals': ref})


def add_compl(r, m, feats):
    """a complementarity row  expr >= 0  complements  x >= 0  (linear or quadratic body)"""
    nv = len(m.vars)
    j = r.below(nv)
    m.vars[j]['lb'], m.vars[j]['int'] = F(0), False
    if m.vars[j]['ub'] is not None and r.chance(1, 2):
        m.vars[j]['ub'] = None
    if r.chance(1, 3):
        m.con(F(0), None, lin_expr(r, nv, False), nl=('*', ('v', r.below(nv)), ('v', r.below(nv))), name='ccq')
        feats.add('compl_quad')
    else:
        m.con(F(0), None, lin_expr(r, nv, False), name='ccl')
        feats.add('compl_lin')
    m.cons[-1]['compl'] = (j, 2)


def gen_special_model(r, names='benign'):
    """-> (Model, feats, accept, options)"""
    m, feats = gen_model(r, size='small', extreme=r.chance(1, 5), infinite=False, names=names)
    acc = gen_accept(r)
    opts = ['cvt:bigM=1e5']
    k = r.below(7)
    if k in (0, 1, 2, 6):
        add_defvars(r, m, feats)
    if k in (2, 3, 4):
        add_sos(r, m, feats)
        if acc not in (None, 'ALL') or r.chance(1, 2):
            base = list(LIN) if acc in (None, 'ALL') else acc
            acc = base + [t for t in ('SOS1Constraint', 'SOS2Constraint') if r.chance(2, 3) and t not in base]
        if r.chance(1, 4):
            opts.append(r.choice(['cvt:sos=0', 'cvt:sos2=0']))
    if k in (4, 5, 6):
        add_compl(r, m, feats)
        base = list(LIN) if acc is None else acc
        if base != 'ALL':
            acc = base + [t for t in ('ComplementarityLinear', 'ComplementarityQuadratic', 'QuadConRange', 'QuadConLE', 'QuadConGE', 'QuadConEQ') if t not in base]
    return m, feats, acc, opts

"""C01 model generator: small NL models in the exactly-reformulable fragment + acceptance/option configurations.

Everything random derives from nlgen.Rng (splitmix64).  A generated *case* is a plain JSON-able dict
  {'model': <model json>, 'cfg': {'accept': [...], 'options': [...], 'quadobj': 0|1, 'eps': 'p/q', 'sos': 0|1}}
so that corpus entries / replays are self-contained.
"""
from fractions import Fraction as F
import nlgen
from nlgen import Model, Rng, ev, REL, CNT

LIST_OPS = ('sum', 'min', 'max', 'forall', 'exists', 'alldiff', 'notalldiff', 'count')


# ------------------------------------------------------------------ (de)serialisation
def fr(x):
    if x is None:
        return None
    x = F(x)
    return str(x.numerator) if x.denominator == 1 else '%d/%d' % (x.numerator, x.denominator)


def unfr(s):
    return None if s is None else F(s)


def e2j(e):
    k = e[0]
    if k == 'n':
        return ['n', fr(e[1])]
    if k == 'v':
        return ['v', e[1]]
    if k in ('T', 'F'):
        return [k]
    if k in LIST_OPS:
        return [k, [e2j(a) for a in e[1]]]
    if k == 'numberof':
        return [k, e2j(e[1]), [e2j(a) for a in e[2]]]
    if k == 'pl':
        return [k, [fr(s) for s in e[1]], [fr(b) for b in e[2]], e[3]]
    return [k] + [e2j(a) for a in e[1:]]


def j2e(j):
    k = j[0]
    if k == 'n':
        return ('n', unfr(j[1]))
    if k == 'v':
        return ('v', int(j[1]))
    if k in ('T', 'F'):
        return (k,)
    if k in LIST_OPS:
        return (k, [j2e(a) for a in j[1]])
    if k == 'numberof':
        return (k, j2e(j[1]), [j2e(a) for a in j[2]])
    if k == 'pl':
        return (k, [unfr(s) for s in j[1]], [unfr(b) for b in j[2]], int(j[3]))
    return (k,) + tuple(j2e(a) for a in j[1:])


def model_to_json(m, grids):
    return {
        'vars': [{'lb': fr(v['lb']), 'ub': fr(v['ub']), 'int': int(v['int']), 'name': v['name'],
                  'grid': [fr(g) for g in grids[j]]} for j, v in enumerate(m.vars)],
        'objs': [{'sense': o['sense'], 'lin': {str(j): fr(c) for j, c in o['lin'].items()},
                  'nl': e2j(o['nl']) if o['nl'] is not None else None} for o in m.objs],
        'cons': [{'lb': fr(c['lb']), 'ub': fr(c['ub']), 'lin': {str(j): fr(cf) for j, cf in c['lin'].items()},
                  'nl': e2j(c['nl']) if c['nl'] is not None else None,
                  'compl': list(c['compl']) if c.get('compl') is not None else None} for c in m.cons],
        'lcons': [e2j(l['expr']) for l in m.lcons],
        'sos': getattr(m, 'sos', []),     # list of {'type':1|2, 'vars':[j..], 'ref':[w..]}
    }


def model_from_json(J):
    m = Model()
    grids = []
    for v in J['vars']:
        m.var(unfr(v['lb']), unfr(v['ub']), bool(v['int']), v.get('name'))
        grids.append([unfr(g) for g in v['grid']])
    for o in J['objs']:
        m.obj(o['sense'], {int(j): unfr(c) for j, c in o['lin'].items()}, j2e(o['nl']) if o['nl'] is not None else None)
    for c in J['cons']:
        m.con(unfr(c['lb']), unfr(c['ub']), {int(j): unfr(cf) for j, cf in c['lin'].items()},
              j2e(c['nl']) if c['nl'] is not None else None)
        if c.get('compl') is not None:
            m.cons[-1]['compl'] = (int(c['compl'][0]), int(c['compl'][1]))      # (variable, NL flags)
    for l in J['lcons']:
        m.lcon(j2e(l))
    m.sos = [dict(s) for s in J.get('sos', [])]
    if m.sos:
        sosno, ref = {}, {}
        for k, s in enumerate(m.sos):
            for j, w in zip(s['vars'], s['ref']):
                sosno[j] = (k + 1) if s['type'] == 1 else -(k + 1)
                ref[j] = unfr(w)
        m.suffixes.append({'name': 'sosno', 'kind': 0, 'float': False, 'vals': sosno})
        m.suffixes.append({'name': 'ref', 'kind': 0, 'float': True, 'vals': ref})
    return m, grids


def sos_ok(m, x):
    for s in getattr(m, 'sos', []):
        order = sorted(range(len(s['vars'])), key=lambda i: unfr(s['ref'][i]))
        nz = [p for p, i in enumerate(order) if F(x[s['vars'][i]]) != 0]
        if s['type'] == 1:
            if len(nz) > 1:
                return False
        else:
            if len(nz) > 2 or (len(nz) == 2 and nz[1] - nz[0] != 1):
                return False
    return True


def nl_feasible(m, x, cfg):
    """reference semantics of the NL model (with the SOS suffixes honoured iff cvt:sos=1)"""
    if not m.feasible(x):
        return False
    for c in m.cons:
        if c.get('compl') is not None:       # `body complements x_j` (AMPL semantics by the bounds of x_j)
            j = c['compl'][0]
            b = m.con_body(c, x)
            xv = F(x[j])
            lo, hi = m.vars[j]['lb'], m.vars[j]['ub']
            if lo is not None and hi is not None:
                ok = (xv == F(lo) and b >= 0) or b == 0 or (xv == F(hi) and b <= 0)
            elif lo is not None:
                ok = b >= 0 and (xv == F(lo) or b == 0)
            elif hi is not None:
                ok = b <= 0 and (xv == F(hi) or b == 0)
            else:
                ok = b == 0
            if not ok:
                return False
    if cfg.get('sos', 1) and not sos_ok(m, x):
        return False
    return True


def all_points(grids, cap=None):
    pts = [[]]
    for g in grids:
        pts = [p + [v] for p in pts for v in g]
    return pts


# ------------------------------------------------------------------ expression walks
def children(e):
    k = e[0]
    if k in ('n', 'v', 'T', 'F', 'pl'):
        return []
    if k in LIST_OPS:
        return list(e[1])
    if k == 'numberof':
        return [e[1]] + list(e[2])
    return list(e[1:])


def rebuild(e, ch):
    k = e[0]
    if k in ('n', 'v', 'T', 'F', 'pl'):
        return e
    if k in LIST_OPS:
        return (k, list(ch))
    if k == 'numberof':
        return (k, ch[0], list(ch[1:]))
    return (k,) + tuple(ch)


def freeze(e):
    """hashable structural key"""
    k = e[0]
    if k in ('n',):
        return ('n', F(e[1]))
    if k in ('v', 'T', 'F'):
        return tuple(e)
    if k == 'pl':
        return ('pl', tuple(F(s) for s in e[1]), tuple(F(b) for b in e[2]), e[3])
    return (k,) + tuple(freeze(c) for c in children(e))


def is_logical(e):
    return e[0] in ('T', 'F', 'not', 'or', 'and', 'forall', 'exists', 'implies', 'iff', 'alldiff', 'notalldiff') \
        or e[0] in REL or e[0] in CNT


def depth(e):
    ch = children(e)
    return 1 + (max(depth(c) for c in ch) if ch else 0)


def count_ops(e, h):
    h[e[0]] = h.get(e[0], 0) + 1
    for c in children(e):
        count_ops(c, h)


def min_cmp_gap(e, x, best=None):
    """smallest non-zero |lhs-rhs| over all comparison-like nodes of e at point x (None if none):
    the continuous-comparison epsilon of the MIP reformulation matters only below this gap"""
    k = e[0]
    try:
        if k in REL:
            g = abs(ev(e[1], x) - ev(e[2], x))
            if g != 0 and (best is None or g < best):
                best = g
        elif k == 'numberof':
            v0 = ev(e[1], x)
            for a in e[2]:
                g = abs(ev(a, x) - v0)
                if g != 0 and (best is None or g < best):
                    best = g
        elif k in ('alldiff', 'notalldiff'):
            vals = [ev(a, x) for a in e[1]]
            for i in range(len(vals)):
                for j in range(i):
                    g = abs(vals[i] - vals[j])
                    if g != 0 and (best is None or g < best):
                        best = g
        elif k == 'iff':
            pass
    except nlgen.Undefined:
        pass
    for c in children(e):
        best = min_cmp_gap(c, x, best)
    return best


def model_exprs(m):
    out = []
    for i, c in enumerate(m.cons):
        if c['nl'] is not None:
            out.append(('con', i, c['nl']))
    for i, l in enumerate(m.lcons):
        out.append(('lcon', i, l['expr']))
    for i, o in enumerate(m.objs):
        if o['nl'] is not None:
            out.append(('obj', i, o['nl']))
    return out


def point_gap(m, x):
    best = None
    for _, _, e in model_exprs(m):
        best = min_cmp_gap(e, x, best)
    return best


# ---- polarity ("context") of every subexpression occurrence, with the mathematically right monotonicity rules.
# names as in mp: 'pos' = the parent only needs  result <= f(args)  (result may be pushed up to f), 'neg' the
# opposite, 'mix' both.
def flip(c):
    return {'pos': 'neg', 'neg': 'pos', 'mix': 'mix'}[c]


def walk_ctx(e, ctx, out):
    """out: list of (frozen expr, op, ctx)"""
    k = e[0]
    if k in ('n', 'v', 'T', 'F'):
        return
    out.append((freeze(e), k, ctx))
    if k in ('+', 'sum'):
        for c in children(e):
            walk_ctx(c, ctx, out)
    elif k == '-':
        walk_ctx(e[1], ctx, out)
        walk_ctx(e[2], flip(ctx), out)
    elif k == 'neg':
        walk_ctx(e[1], flip(ctx), out)
    elif k == '*':
        a, b = e[1], e[2]
        if a[0] == 'n' or b[0] == 'n':
            cst, oth = (a, b) if a[0] == 'n' else (b, a)
            walk_ctx(oth, ctx if F(cst[1]) >= 0 else flip(ctx), out)
        else:
            walk_ctx(a, 'mix', out)
            walk_ctx(b, 'mix', out)
    elif k == '/':
        walk_ctx(e[1], ctx if (e[2][0] == 'n' and F(e[2][1]) >= 0) else flip(ctx) if e[2][0] == 'n' else 'mix', out)
    elif k in ('min', 'max'):
        for c in children(e):
            walk_ctx(c, ctx, out)
    elif k == 'if':
        walk_ctx(e[1], 'mix', out)
        walk_ctx(e[2], ctx, out)
        walk_ctx(e[3], ctx, out)
    elif k in ('and', 'or', 'forall', 'exists'):
        for c in children(e):
            walk_ctx(c, ctx, out)
    elif k == 'not':
        walk_ctx(e[1], flip(ctx), out)
    elif k == 'implies':
        walk_ctx(e[1], 'mix', out)
        walk_ctx(e[2], ctx, out)
        walk_ctx(e[3], ctx, out)
    elif k in ('le', 'lt'):
        walk_ctx(e[1], flip(ctx), out)
        walk_ctx(e[2], ctx, out)
    elif k in ('ge', 'gt'):
        walk_ctx(e[1], ctx, out)
        walk_ctx(e[2], flip(ctx), out)
    else:   # abs sqr pow eq ne iff count numberof alldiff atleast-family ...: no monotone direction
        for c in children(e):
            walk_ctx(c, 'mix', out)


def model_contexts(m):
    out = []
    for c in m.cons:
        if c['nl'] is None:
            continue
        if c['lb'] is None:
            ctx = 'neg'
        elif c['ub'] is None:
            ctx = 'pos'
        else:
            ctx = 'mix'
        walk_ctx(c['nl'], ctx, out)
    for l in m.lcons:
        walk_ctx(l['expr'], 'pos', out)
    for o in m.objs:
        if o['nl'] is not None:
            walk_ctx(o['nl'], 'pos' if o['sense'] == 'max' else 'neg', out)
    return out


def model_stats(m):
    ops = {}
    dmax = 0
    for _, _, e in model_exprs(m):
        count_ops(e, ops)
        dmax = max(dmax, depth(e))
    occ = model_contexts(m)
    byexpr = {}
    for fz, op, ctx in occ:
        byexpr.setdefault(fz, []).append(ctx)
    shared = sum(1 for v in byexpr.values() if len(v) > 1)
    shared_diff = sum(1 for v in byexpr.values() if len(set(v)) > 1)
    ctxh = {}
    for fz, op, ctx in occ:
        ctxh[op + ':' + ctx] = ctxh.get(op + ':' + ctx, 0) + 1
    negnl = 0
    for _, _, e in model_exprs(m):
        negnl += _neg_coef_nonlinear(e)
    return {'ops': ops, 'depth': dmax, 'shared': shared, 'shared_diff_ctx': shared_diff, 'ctx': ctxh,
            'negcoef_nonlinear': negnl}


NONLIN_HEADS = ('abs', 'min', 'max', 'if', 'count', 'numberof', 'pl', '*', 'sqr', 'pow', '/')


def _neg_coef_nonlinear(e):
    n = 0
    k = e[0]
    if k == 'neg' and e[1][0] in NONLIN_HEADS:
        n += 1
    if k == '-' and e[2][0] in NONLIN_HEADS:
        n += 1
    if k == '*' and ((e[1][0] == 'n' and F(e[1][1]) < 0 and e[2][0] in NONLIN_HEADS) or
                     (e[2][0] == 'n' and F(e[2][1]) < 0 and e[1][0] in NONLIN_HEADS)):
        n += 1
    for c in children(e):
        n += _neg_coef_nonlinear(c)
    return n


# ------------------------------------------------------------------ generation
PROFILES = {
    #           numeric op weights                                                         logical op weights
    'mixed': ({'lin': 6, 'abs': 3, 'minmax': 3, 'mul': 3, 'monoprod': 1, 'sqr': 1, 'div': 1, 'if': 2, 'count': 1, 'numberof': 1, 'pl': 1},
              {'cmp': 6, 'batom': 4, 'not': 2, 'andor': 4, 'iter': 1, 'implies': 3, 'iff': 2, 'cnt': 1, 'alldiff': 1, 'member': 1}),
    'quad': ({'lin': 6, 'abs': 3, 'minmax': 2, 'mul': 5, 'monoprod': 5, 'sqr': 2, 'div': 1, 'if': 1, 'count': 0, 'numberof': 0, 'pl': 1},
             {'cmp': 6, 'batom': 2, 'not': 1, 'andor': 2, 'iter': 0, 'implies': 1, 'iff': 1, 'cnt': 0, 'alldiff': 0, 'member': 1}),
    'logic': ({'lin': 4, 'abs': 1, 'minmax': 1, 'mul': 0, 'sqr': 0, 'div': 0, 'if': 2, 'count': 1, 'numberof': 0, 'pl': 0},
              {'cmp': 2, 'batom': 8, 'not': 2, 'andor': 6, 'iter': 1, 'implies': 6, 'iff': 4, 'cnt': 1, 'alldiff': 0, 'member': 2}),
    'count': ({'lin': 4, 'abs': 1, 'minmax': 2, 'mul': 1, 'sqr': 0, 'div': 1, 'if': 2, 'count': 4, 'numberof': 4, 'pl': 0},
              {'cmp': 5, 'batom': 3, 'not': 1, 'andor': 2, 'iter': 1, 'implies': 2, 'iff': 1, 'cnt': 5, 'alldiff': 3, 'member': 3}),
    'pl': ({'lin': 5, 'abs': 2, 'minmax': 2, 'mul': 1, 'sqr': 0, 'div': 2, 'if': 2, 'count': 0, 'numberof': 0, 'pl': 6},
           {'cmp': 6, 'batom': 2, 'not': 1, 'andor': 2, 'iter': 0, 'implies': 1, 'iff': 1, 'cnt': 0, 'alldiff': 0}),
}
PROFILE_ORDER = ['mixed', 'quad', 'logic', 'quad', 'count', 'quad', 'logic', 'pl']

COEFS = [F(1), F(1), F(-1), F(-1), F(2), F(-2), F(1, 2), F(-1, 2), F(3)]


def wchoice(rng, table):
    tot = sum(table.values())
    r = rng.below(tot)
    for k, w in table.items():
        if r < w:
            return k
        r -= w
    raise AssertionError


class Gen:
    def __init__(self, rng, profile, quad_con, quad_obj):
        self.rng = rng
        self.nw, self.lw = PROFILES[profile]
        self.profile = profile
        self.quad_con, self.quad_obj = quad_con, quad_obj
        self.in_obj = False
        self.m = Model()
        self.grids = []
        self.npool, self.lpool = [], []          # shared numeric / logical subexpressions
        self.bins = []

    # ---- variables
    def make_vars(self):
        rng = self.rng
        n = rng.rint(2, 5)
        nbin_min = 2 if self.profile == 'logic' else (1 if rng.chance(2, 3) else 0)
        for j in range(n):
            r = rng.below(30)
            if j < nbin_min or r < 10:
                self.m.var(0, 1, True)
                self.grids.append([F(0), F(1)])
                self.bins.append(j)
            elif r < 19:
                lo = rng.rint(-3, 1)
                w = rng.rint(1, 3)
                if rng.chance(1, 4):
                    lo = 0
                if rng.chance(1, 8):
                    w = rng.rint(1, 3)
                    lo = -w                     # non-positive domain [-w, 0]
                self.m.var(lo, lo + w, True)
                self.grids.append([F(v) for v in range(lo, lo + w + 1)])
            elif r < 29:
                lo = F(rng.rint(-6, 2), 2)
                w = rng.choice([F(1), F(3, 2), F(2), F(3), F(5, 2)])
                if rng.chance(1, 4):
                    lo = F(0)
                if rng.chance(1, 8):
                    lo = -w                     # non-positive
                hi = lo + w
                self.m.var(lo, hi, False)
                step = F(1, 2) if w <= 2 else F(1)
                g = []
                t = lo
                while t < hi:
                    g.append(t)
                    t += step
                g.append(hi)
                if lo < 0 < hi and F(0) not in g:
                    g.append(F(0))
                self.grids.append(sorted(set(g)))
            else:
                v = F(rng.rint(-2, 3)) if rng.chance(1, 2) else F(rng.rint(-4, 6), 2)
                isint = v.denominator == 1 and rng.chance(1, 2)
                self.m.var(v, v, isint)
                self.grids.append([v])
        # keep the grid small
        while True:
            tot = 1
            for g in self.grids:
                tot *= len(g)
            if tot <= 240:
                break
            j = max(range(n), key=lambda j: len(self.grids[j]))
            g = self.grids[j]
            v = self.m.vars[j]
            if v['int']:
                v['ub'] = v['ub'] - 1
                self.grids[j] = g[:-1]
            else:
                keep = {g[0], g[-1], g[len(g) // 2]}
                if F(0) in g:
                    keep.add(F(0))
                self.grids[j] = sorted(keep) if len(keep) < len(g) else g[:-1] + []
                if len(self.grids[j]) == len(g):
                    self.grids[j] = [g[0], g[-1]]
        self.n = n

    def var_info(self, j):
        v = self.m.vars[j]
        return F(v['lb']), F(v['ub']), v['int']

    # ---- numeric expressions; returns (expr, lo, hi, isint, binaffine)
    def leaf(self):
        rng = self.rng
        if rng.chance(1, 7):
            c = F(rng.rint(-3, 4)) if rng.chance(3, 4) else F(rng.rint(-5, 7), 2)
            return ('n', c), c, c, c.denominator == 1, True
        j = rng.below(self.n)
        lo, hi, isint = self.var_info(j)
        return ('v', j), lo, hi, isint, j in self.bins

    def signdef_leaf(self):
        cands = [j for j in range(self.n) if (F(self.m.vars[j]['lb']) >= 0 or F(self.m.vars[j]['ub']) <= 0)
                 and self.m.vars[j]['lb'] != self.m.vars[j]['ub']]
        if not cands:
            return self.leaf()
        j = self.rng.choice(cands)
        lo, hi, isint = self.var_info(j)
        return ('v', j), lo, hi, isint, j in self.bins

    def binaffine(self):
        """affine expression over binary variables only (legal factor when products are linearised)"""
        rng = self.rng
        if not self.bins:
            return None
        b = rng.choice(self.bins)
        r = rng.below(4)
        if r < 2:
            return ('v', b), F(0), F(1), True, True
        if r == 2:
            return ('-', ('n', F(1)), ('v', b)), F(0), F(1), True, True
        b2 = rng.choice(self.bins)
        if b2 == b:
            return ('v', b), F(0), F(1), True, True
        return ('+', ('v', b), ('v', b2)), F(0), F(2), True, True

    def num(self, d):
        rng = self.rng
        if d <= 0:
            return self.leaf()
        if self.npool and rng.chance(1, 5):
            return rng.choice(self.npool)
        if rng.chance(1, 6):
            return self.leaf()
        k = wchoice(rng, self.nw)
        r = getattr(self, 'n_' + k)(d)
        if r is None:
            r = self.n_lin(d)
        e, lo, hi, isint, ba = r
        if max(abs(lo), abs(hi)) > 200:
            return self.leaf()
        if e[0] not in ('n', 'v') and rng.chance(1, 2):
            self.npool.append(r)
        return r

    def n_lin(self, d):
        rng = self.rng
        nt = rng.rint(2, 3)
        terms = []
        lo = hi = F(0)
        isint, ba = True, True
        for _ in range(nt):
            e, l, h, ii, b = self.num(d - 1)
            c = rng.choice(COEFS)
            if c == 1:
                t = e
            elif c == -1:
                t = ('neg', e)
            else:
                t = ('*', ('n', c), e) if rng.chance(1, 2) else ('*', e, ('n', c))
            terms.append((t, c))
            a, b2 = (c * l, c * h) if c >= 0 else (c * h, c * l)
            lo += a
            hi += b2
            isint = isint and ii and c.denominator == 1
            ba = ba and b
        if rng.chance(1, 3):
            c0 = F(rng.rint(-3, 3))
            terms.append((('n', c0), F(1)))
            lo += c0
            hi += c0
        if len(terms) >= 3 and rng.chance(1, 2):
            e = ('sum', [t for t, _ in terms])
        else:
            e = terms[0][0]
            for t, c in terms[1:]:
                if t[0] == 'neg' and rng.chance(1, 2):
                    e = ('-', e, t[1])
                else:
                    e = ('+', e, t)
        return e, lo, hi, isint, ba

    def n_abs(self, d):
        e, lo, hi, isint, _ = self.num(d - 1)
        l2 = F(0) if lo <= 0 <= hi else min(abs(lo), abs(hi))
        return ('abs', e), l2, max(abs(lo), abs(hi)), isint, False

    def n_minmax(self, d):
        rng = self.rng
        k = rng.choice(['min', 'max'])
        args = [self.num(d - 1) for _ in range(rng.rint(2, 3))]
        if rng.chance(1, 3):
            c = F(rng.rint(-2, 3))
            args.append((('n', c), c, c, True, True))
        los, his = [a[1] for a in args], [a[2] for a in args]
        lo, hi = (min(los), min(his)) if k == 'min' else (max(los), max(his))
        return (k, [a[0] for a in args]), lo, hi, all(a[3] for a in args), False

    def quad_ok(self):
        return self.quad_obj if self.in_obj else self.quad_con

    def n_mul(self, d):
        rng = self.rng
        if self.quad_ok():
            if rng.chance(1, 3):
                # a sign-definite factor times a functional subterm (|.|, min, max, if): the product is monotone in
                # the subterm, so the subterm only needs a one-sided reformulation
                a = self.signdef_leaf()
                b = rng.choice([self.n_abs, self.n_abs, self.n_minmax, self.n_if])(d)
                if rng.chance(1, 2):
                    a, b = b, a
            else:
                a = self.num(d - 1)
                b = self.num(d - 1) if rng.chance(3, 4) else self.leaf()
        else:
            a = self.binaffine()
            if a is None:
                return None
            b = self.num(d - 1)
            if rng.chance(1, 2):
                a, b = b, a
        cands = [a[1] * b[1], a[1] * b[2], a[2] * b[1], a[2] * b[2]]
        return ('*', a[0], b[0]), min(cands), max(cands), a[3] and b[3], False

    def zero_crossing(self, d):
        """expression whose range contains negative and positive values"""
        rng = self.rng
        zc = [j for j in range(self.n) if F(self.m.vars[j]['lb']) < 0 < F(self.m.vars[j]['ub'])]
        if zc and rng.chance(1, 2):
            j = rng.choice(zc)
            lo, hi, isint = self.var_info(j)
            return ('v', j), lo, hi, isint, False
        a = self.num(d - 1) if rng.chance(1, 3) else self.leaf()
        if a[1] == a[2]:
            a = self.leaf()
        if rng.chance(1, 2):
            b = self.leaf()
            if b[0] != a[0] and not (b[1] == b[2]):
                return ('-', a[0], b[0]), a[1] - b[2], a[2] - b[1], a[3] and b[3], False
        # shift by a value strictly inside the range
        mid = (a[1] + a[2]) / 2
        c = F(int(mid * 2), 2) if not a[3] else F(int(mid))
        if c <= a[1]:
            c = a[1] + (1 if a[3] else F(1, 2))
        return ('-', a[0], ('n', c)), a[1] - c, a[2] - c, a[3] and c.denominator == 1, False

    def n_monoprod(self, d):
        """product that is monotone in a functional subterm: (variable of one sign) * |e|, * max(e, c>=0), * count.."""
        rng = self.rng
        if not self.quad_ok():
            return None
        cands = [j for j in range(self.n) if F(self.m.vars[j]['lb']) >= 0 and self.m.vars[j]['lb'] != self.m.vars[j]['ub']]
        if not cands:
            return None
        j = rng.choice(cands)
        lo, hi, isint = self.var_info(j)
        r = rng.below(4)
        if r < 2:
            z = self.zero_crossing(d)
            f = (('abs', z[0]), F(0), max(abs(z[1]), abs(z[2])), z[3], False)
        elif r == 2:
            e = self.num(d - 1)
            c = F(rng.rint(0, 2))
            f = (('max', [e[0], ('n', c)]), max(e[1], c), max(e[2], c), e[3], False)
        else:
            f = self.n_abs(d) if not self.bins else self.n_count(d)
        a = (('v', j), lo, hi, isint, False)
        if rng.chance(1, 2):
            a, f = f, a
        cands = [a[1] * f[1], a[1] * f[2], a[2] * f[1], a[2] * f[2]]
        return ('*', a[0], f[0]), min(cands), max(cands), a[3] and f[3], False

    def n_sqr(self, d):
        if not self.quad_ok():
            return None
        e, lo, hi, isint, _ = self.num(d - 1)
        l2 = F(0) if lo <= 0 <= hi else min(lo * lo, hi * hi)
        ex = ('pow', e, ('n', F(2))) if self.rng.chance(1, 2) else ('sqr', e)
        return ex, l2, max(lo * lo, hi * hi), isint, False

    def n_div(self, d):
        e, lo, hi, isint, _ = self.num(d - 1)
        c = self.rng.choice([F(2), F(-2), F(4), F(1, 2), F(-1)])
        cands = [lo / c, hi / c]
        return ('/', e, ('n', c)), min(cands), max(cands), False, False

    def n_if(self, d):
        c = self.log(d - 1)
        a = self.num(d - 1)
        b = self.num(d - 1) if self.rng.chance(2, 3) else self.leaf()
        return ('if', c, a[0], b[0]), min(a[1], b[1]), max(a[2], b[2]), a[3] and b[3], False

    def n_count(self, d):
        args = [self.log(d - 1) for _ in range(self.rng.rint(2, 3))]
        return ('count', args), F(0), F(len(args)), True, False

    def int_arg(self, d):
        """integer-valued expression for numberof/alldiff"""
        rng = self.rng
        ints = [j for j in range(self.n) if self.m.vars[j]['int']]
        if not ints:
            return None
        j = rng.choice(ints)
        lo, hi, _ = self.var_info(j)
        if rng.chance(2, 3):
            return ('v', j), lo, hi, True, j in self.bins
        c = F(rng.rint(-1, 2))
        return ('+', ('v', j), ('n', c)), lo + c, hi + c, True, False

    def n_numberof(self, d):
        rng = self.rng
        args = [self.int_arg(d) for _ in range(rng.rint(2, 3))]
        if any(a is None for a in args):
            return None
        if rng.chance(2, 3):
            v0 = ('n', F(rng.rint(int(min(a[1] for a in args)), int(max(a[2] for a in args)))))
        else:
            t = self.int_arg(d)
            v0 = t[0]
        return ('numberof', v0, [a[0] for a in args]), F(0), F(len(args)), True, False

    def n_pl(self, d):
        rng = self.rng
        j = rng.below(self.n)
        lo, hi, isint = self.var_info(j)
        if lo == hi:
            return None
        nb = rng.rint(1, 3)
        # breakpoints inside / around the domain, on the half-integer grid
        cands = sorted(set(F(k, 2) for k in range(int(lo * 2) - 1, int(hi * 2) + 2)))
        if len(cands) < nb:
            return None
        bps = sorted(set(rng.choice(cands) for _ in range(nb)))
        slopes = [F(rng.rint(-2, 3)) if rng.chance(3, 4) else F(rng.rint(-3, 5), 2) for _ in range(len(bps) + 1)]
        for i in range(1, len(slopes)):
            if slopes[i] == slopes[i - 1]:
                slopes[i] += 1
        e = ('pl', slopes, bps, j)
        vals = [nlgen.ev_pl(slopes, bps, t) for t in [lo, hi] + [b for b in bps if lo < b < hi]]
        return e, min(vals), max(vals), False, False

    # ---- logical expressions
    def log(self, d):
        rng = self.rng
        if self.lpool and rng.chance(1, 4):
            return rng.choice(self.lpool)
        if d <= 0:
            k = wchoice(rng, {'cmp': self.lw['cmp'], 'batom': self.lw['batom'] + 1})
        else:
            k = wchoice(rng, self.lw)
        e = getattr(self, 'l_' + k)(d)
        if e is None:
            e = self.l_cmp(d)
        if rng.chance(1, 2):
            self.lpool.append(e)
        return e

    def l_batom(self, d):
        rng = self.rng
        if not self.bins:
            return None
        b = rng.choice(self.bins)
        r = rng.below(8)
        v = ('v', b)
        if r < 3:
            return ('eq', v, ('n', F(1)))
        if r == 3:
            return ('eq', v, ('n', F(0)))
        if r == 4:
            return ('ge', v, ('n', F(1)))
        if r == 5:
            return ('le', v, ('n', F(0)))
        if r == 6:
            return ('ne', v, ('n', F(0)))
        return ('gt', v, ('n', F(0)))

    def l_cmp(self, d):
        rng = self.rng
        a = self.num(max(0, d - 1))
        op = rng.choice(['le', 'le', 'ge', 'ge', 'lt', 'gt', 'eq', 'ne'])
        if rng.chance(2, 3):
            # constant rhs inside (or at the border of) the range of a, on the half-grid
            lo, hi = a[1], a[2]
            if a[3]:
                c = F(rng.rint(int(lo) - (1 if rng.chance(1, 6) else 0), int(hi) + (1 if rng.chance(1, 6) else 0)))
            else:
                c = F(rng.rint(int(lo * 2), int(hi * 2) + 1), 2)
            b = ('n', c)
        else:
            b = self.num(max(0, d - 1))[0]
        if a[0][0] == 'n' and b[0] == 'n':
            a = self.leaf()
        return (op, a[0], b)

    def l_not(self, d):
        return ('not', self.log(d - 1))

    def l_andor(self, d):
        return (self.rng.choice(['and', 'or']), self.log(d - 1), self.log(d - 1))

    def l_iter(self, d):
        return (self.rng.choice(['forall', 'exists']), [self.log(d - 1) for _ in range(3)])

    def l_implies(self, d):
        rng = self.rng
        c, t = self.log(d - 1), self.log(d - 1)
        e = self.log(d - 1) if rng.chance(1, 2) else ('T',)
        return ('implies', c, t, e)

    def l_iff(self, d):
        return ('iff', self.log(d - 1), self.log(d - 1))

    def l_cnt(self, d):
        rng = self.rng
        args = [self.log(d - 1) for _ in range(rng.rint(2, 3))]
        kind = rng.choice(CNT)
        return (kind, ('n', F(rng.rint(0, len(args)))), ('count', args))

    def l_member(self, d):
        """`x in {c1, c2, ...}`: equalities of ONE variable with neighbouring constants (consecutive points of the variable's grid, or an
        arithmetic progression with step 1, 1/2 or 1/4), combined by or / exists / a counting constraint / negated"""
        rng = self.rng
        cands = [j for j in range(self.n) if len(self.grids[j]) >= 2]
        if not cands:
            return None
        j = rng.choice(cands)
        lo, hi, isint = self.var_info(j)
        k = rng.rint(2, 3)
        g = self.grids[j]
        if rng.chance(3, 4):
            i = rng.below(max(1, len(g) - k + 1))
            cs = g[i:i + k]
        else:
            step = F(1) if (isint and rng.chance(3, 4)) else rng.choice([F(1, 2), F(1, 4)])
            base = g[rng.below(len(g))]
            cs = [base + step * i for i in range(k)]
        if len(cs) < 2:
            return None
        atoms = [('eq', ('v', j), ('n', F(c))) for c in cs]
        r = rng.below(5)
        if r < 2:
            return ('or', atoms[0], atoms[1]) if len(atoms) == 2 else ('exists', atoms)
        if r == 2:
            return (rng.choice(CNT), ('n', F(1)), ('count', atoms))
        if r == 3:
            return ('not', ('or', atoms[0], atoms[1]) if len(atoms) == 2 else ('exists', atoms))
        return ('and', ('not', atoms[0]), atoms[1])

    def l_alldiff(self, d):
        rng = self.rng
        args = [self.int_arg(d) for _ in range(rng.rint(2, 3))]
        if any(a is None for a in args):
            return None
        return ('alldiff', [a[0] for a in args])

    # ---- top level
    def body_values(self, lin, nl):
        pts = all_points(self.grids)
        vals = []
        for p in pts:
            try:
                v = sum((F(c) * p[j] for j, c in lin.items()), F(0))
                if nl is not None:
                    v += ev(nl, p)
                vals.append(v)
            except nlgen.Undefined:
                pass
        return vals

    def lin_part(self):
        rng = self.rng
        lin = {}
        if rng.chance(1, 2):
            for _ in range(rng.rint(1, 2)):
                lin[rng.below(self.n)] = rng.choice(COEFS)
        return lin

    def add_alg_con(self, d):
        rng = self.rng
        self.in_obj = False
        e = self.num(d)
        nl = e[0] if e[0][0] not in ('n', 'v') else ('+', e[0], ('n', F(0)))
        if nl[0] == '+' and nl[2] == ('n', F(0)):
            nl = self.n_lin(1)[0] if d == 0 else self.num(d)[0]
            if nl[0] in ('n', 'v'):
                nl = ('abs', nl) if nl[0] == 'v' else self.n_abs(1)[0]
        lin = self.lin_part()
        vals = sorted(set(self.body_values(lin, nl)))
        if not vals:
            return
        r = rng.below(10)
        t = vals[rng.below(len(vals))]
        if r < 4:
            self.m.con(None, t, lin, nl)
        elif r < 8:
            self.m.con(t, None, lin, nl)
        elif r == 8:
            t2 = vals[rng.below(len(vals))]
            lo, hi = min(t, t2), max(t, t2)
            self.m.con(lo, hi, lin, nl)
        else:
            self.m.con(t, t, lin, nl)

    def add_monoprod_con(self, d):
        """one-sided row  lin + c * (monotone product) + other  with a coefficient of either sign on the product"""
        rng = self.rng
        self.in_obj = False
        pr = self.n_monoprod(max(1, d))
        if pr is None:
            return self.add_alg_con(d)
        c = rng.choice([F(-1), F(-1), F(-2), F(-1, 2), F(1), F(2)])
        t = ('neg', pr[0]) if c == -1 else (pr[0] if c == 1 else ('*', ('n', c), pr[0]))
        if rng.chance(1, 2):
            o = self.num(max(0, d - 1))[0]
            t = ('+', t, o) if rng.chance(1, 2) else ('+', o, t)
        lin = self.lin_part()
        vals = sorted(set(self.body_values(lin, t)))
        if not vals:
            return
        th = vals[rng.below(len(vals))]
        if rng.chance(1, 2):
            self.m.con(None, th, lin, t)
        else:
            self.m.con(th, None, lin, t)

    def add_log_con(self, d):
        self.in_obj = False
        e = self.log(d)
        if e[0] in ('T', 'F'):
            e = self.l_cmp(1)
        self.m.lcon(e)

    def add_obj(self, d):
        rng = self.rng
        self.in_obj = True
        nl = None
        if rng.chance(4, 5):
            nl = self.num(d)[0]
            if nl[0] in ('n', 'v'):
                nl = self.n_abs(1)[0] if rng.chance(1, 2) else self.n_minmax(1)[0]
        lin = self.lin_part()
        if nl is None and not lin:
            lin = {rng.below(self.n): F(1)}
        self.m.obj(rng.choice(['min', 'max']), lin, nl)
        self.in_obj = False

    def add_sos(self):
        rng = self.rng
        if self.n < 3:
            return
        k = rng.rint(2, min(3, self.n))
        vs = []
        while len(vs) < k:
            j = rng.below(self.n)
            if j not in vs:
                vs.append(j)
        refs = list(range(1, k + 1))
        # shuffle refs
        for i in range(k - 1, 0, -1):
            t = rng.below(i + 1)
            refs[i], refs[t] = refs[t], refs[i]
        self.m.sos = [{'type': 1 if rng.chance(3, 4) else 2, 'vars': vs, 'ref': [fr(F(r)) for r in refs]}]


ALG_NATIVE = ['LinConLE', 'LinConEQ', 'LinConGE']
QUAD3 = ['QuadConLE', 'QuadConEQ', 'QuadConGE']
OPTIONAL = ['LinConRange', 'QuadConRange',
            'IndicatorLinConLE', 'IndicatorLinConEQ', 'IndicatorLinConGE',
            'IndicatorQuadConLE', 'IndicatorQuadConEQ', 'IndicatorQuadConGE',
            'SOS1Constraint', 'SOS2Constraint', 'PLConstraint',
            'AbsConstraint', 'MinConstraint', 'MaxConstraint', 'AndConstraint', 'OrConstraint', 'NotConstraint',
            'CondLinConEQ', 'CondLinConLE', 'CondLinConLT', 'CondLinConGE', 'CondLinConGT',
            'CondQuadConEQ', 'CondQuadConLE', 'CondQuadConLT', 'CondQuadConGE', 'CondQuadConGT',
            'IfThenConstraint', 'ImplicationConstraint', 'CountConstraint', 'NumberofConstConstraint',
            'NumberofVarConstraint', 'AllDiffConstraint', 'DivConstraint']
ACC_OPT = {'LinConRange': 'acc:linrange', 'QuadConRange': 'acc:quadrange', 'QuadConLE': 'acc:quadle', 'QuadConEQ': 'acc:quadeq',
           'QuadConGE': 'acc:quadge', 'IndicatorLinConLE': 'acc:indle', 'IndicatorLinConEQ': 'acc:indeq',
           'IndicatorLinConGE': 'acc:indge', 'IndicatorQuadConLE': 'acc:indquadle', 'IndicatorQuadConEQ': 'acc:indquadeq',
           'IndicatorQuadConGE': 'acc:indquadge', 'SOS1Constraint': 'acc:sos1', 'SOS2Constraint': 'acc:sos2',
           'PLConstraint': 'acc:pl', 'AbsConstraint': 'acc:abs', 'MinConstraint': 'acc:min', 'MaxConstraint': 'acc:max',
           'AndConstraint': 'acc:and', 'OrConstraint': 'acc:or', 'NotConstraint': 'acc:not',
           'CondLinConEQ': 'acc:condlineq', 'CondLinConLE': 'acc:condlinle', 'CondLinConLT': 'acc:condlinlt',
           'CondLinConGE': 'acc:condlinge', 'CondLinConGT': 'acc:condlingt', 'CondQuadConEQ': 'acc:condquadeq',
           'CondQuadConLE': 'acc:condquadle', 'CondQuadConLT': 'acc:condquadlt', 'CondQuadConGE': 'acc:condquadge',
           'CondQuadConGT': 'acc:condquadgt', 'IfThenConstraint': 'acc:ifthen', 'ImplicationConstraint': 'acc:impl',
           'CountConstraint': 'acc:count', 'NumberofConstConstraint': 'acc:numberofconst',
           'NumberofVarConstraint': 'acc:numberofvar', 'AllDiffConstraint': 'acc:alldiff', 'DivConstraint': 'acc:div'}
EPS_CHOICES = [F(1, 16), F(1, 128), F(1, 1024), F(1, 8192)]


def gen_cfg(rng, profile):
    """acceptance configuration + conversion options.  Returns cfg and the derived (quad_con, quad_obj) modes."""
    accept = list(ALG_NATIVE)
    options = []
    r = rng.below(10)
    quad_want = (r < 6) if profile != 'quad' else (r < 8)
    level = {}                               # final acceptance level per optional type
    if quad_want:
        for t in QUAD3:
            level[t] = 2
    elif rng.chance(1, 4):
        for t in QUAD3:                      # partial quadratic acceptance: products must be linearised
            level[t] = 2 if rng.chance(1, 2) else 0
        if all(level[t] == 2 for t in QUAD3):
            level[rng.choice(QUAD3)] = 0
    dens = rng.choice([0, 1, 1, 2, 3, 5])     # how many optional types are natively accepted (x/6)
    for t in OPTIONAL:
        if rng.below(6) < dens:
            level[t] = 2 if rng.chance(3, 4) else 1
    # express acceptance partly through the environment list, partly through acc:* options
    for t, lv in sorted(level.items()):
        if lv == 2 and rng.chance(2, 3):
            accept.append(t)
        elif lv == 2:
            options.append('%s=2' % ACC_OPT[t])
        elif lv == 1:
            options.append('%s=1' % ACC_OPT[t])
        else:
            if rng.chance(1, 2):
                accept.append(t)
                options.append('%s=0' % ACC_OPT[t])
    quadcon_opt = 1
    if rng.chance(1, 8):
        quadcon_opt = 0
        options.append('cvt:quadcon=0')
    quad_con = quadcon_opt == 1 and all(level.get(t, 0) == 2 for t in QUAD3)
    if quad_con and rng.chance(3, 4):
        options.append('cvt:socp=0')          # cone recognition re-derives quadratics with sqrt-rounded coefficients
    quadobj_env = 1 if rng.chance(2, 3) else 0
    quad_obj = bool(quadobj_env)
    if rng.chance(1, 8):
        v = rng.below(2)
        options.append('cvt:quadobj=%d' % v)
        quad_obj = bool(v)
    for o in ('cvt:pre:all', 'cvt:pre:eqresult', 'cvt:pre:eqbinary', 'cvt:pre:unnest'):
        if rng.chance(1, 6):
            options.append(o + '=0')
    if rng.chance(1, 5):
        options.append('cvt:uenc:ratio=%s' % rng.choice(['0.5', '1', '2', '100']))
    if rng.chance(1, 6):
        options.append('cvt:uenc:negctx:max=%d' % rng.choice([0, 2, 10]))
    if rng.chance(1, 8):
        options.append('cvt:bigM=%d' % rng.choice([64, 1024, 65536]))
    sos = 1
    if rng.chance(1, 6):
        sos = 0
        options.append('cvt:sos=0')
    if rng.chance(1, 8):
        options.append('cvt:sos2=0')
    eps = rng.choice(EPS_CHOICES)
    options.append('cvt:cmp:eps=%s' % repr(float(eps)))
    cfg = {'accept': accept, 'options': options, 'quadobj': quadobj_env, 'eps': fr(eps), 'sos': sos}
    return cfg, quad_con, quad_obj


# ------------------------------------------------------------------ targeted templates
def _strip_types(cfg, types):
    """make sure the given types are NOT natively accepted (so that they are reformulated)"""
    cfg['accept'] = [t for t in cfg['accept'] if t not in types]
    drop = tuple(ACC_OPT[t] + '=' for t in types if t in ACC_OPT)
    cfg['options'] = [o for o in cfg['options'] if not o.startswith(drop)]


def gen_shared_case(rng, cfg):
    """a reified comparison shared between a ONE-SIDED use (objective term, disjunct, implication side) and a MIXED use
    (iff, count/numberof argument, if-condition inside an equality/both-sided row), in both flattening orders:
    the context stored on the shared definition is the merge (Context::Add) of the two uses."""
    m = Model()
    grids = []
    a, b = rng.rint(2, 5), rng.rint(2, 5)
    x = m.var(0, a, True); grids.append([F(v) for v in range(a + 1)])
    y = m.var(0, b, True); grids.append([F(v) for v in range(b + 1)])
    z = m.var(0, 1, True); grids.append([F(0), F(1)])
    rel1 = rng.choice(['ge', 'le', 'gt', 'lt', 'ge', 'le'])
    rel2 = rng.choice(['ge', 'le', 'gt', 'lt', 'eq'])
    C = (rel1, ('v', x), ('n', F(rng.rint(1, a))))
    D = (rel2, ('v', y), ('n', F(rng.rint(1, b))))
    Z = ('eq', ('v', z), ('n', 1))
    K = F(rng.choice([10, 5, -10, -5, 3, -3]))
    one = rng.below(5)
    mixed = rng.below(6)
    # the mixed use
    if mixed == 0:
        mix_l = ('iff', C, D)
    elif mixed == 1:
        mix_l = ('eq', ('count', [C, D, Z]), ('n', F(rng.rint(1, 2))))
    elif mixed == 2:
        mix_l = ('iff', Z, ('and', C, D)) if rng.chance(1, 2) else ('iff', ('or', C, Z), D)
    elif mixed == 3:
        mix_l = None      # algebraic: (if C then y else x) in a two-sided row
    elif mixed == 4:
        mix_l = ('eq', ('numberof', ('n', 1), [('if', C, ('n', 1), ('n', 0)), ('v', z)]), ('n', 1))
    else:
        mix_l = ('not', ('iff', C, D))
    # the one-sided use
    one_l = None
    if one == 0 or one == 1:
        sense = 'min' if one == 0 else 'max'
        m.obj(sense, lin={x: F(rng.choice([3, 1, -1, 2])), y: F(rng.choice([1, -1, 2]))},
              nl=('*', ('n', K), ('if', C, ('n', 1), ('n', 0))))
    elif one == 2:
        one_l = ('or', C, D) if rng.chance(1, 2) else ('or', ('not', C), Z)
    elif one == 3:
        one_l = ('implies', Z, C, ('T',)) if rng.chance(1, 2) else ('implies', C, Z, ('T',))
    else:
        # one-sided algebraic row: y + K*(if C then 1 else 0) <= / >= c
        c0 = F(rng.rint(0, b + 3))
        if rng.chance(1, 2):
            m.con(None, c0, lin={y: 1}, nl=('*', ('n', K), ('if', C, ('n', 1), ('n', 0))))
        else:
            m.con(c0 - 4, None, lin={y: 1}, nl=('*', ('n', K), ('if', C, ('n', 1), ('n', 0))))
    if mixed == 3:
        c0 = F(rng.rint(0, max(a, b)))
        m.con(c0, c0 + rng.rint(0, 1), nl=('if', C, ('v', y), ('v', x)))
    logical = [l for l in (one_l, mix_l) if l is not None]
    if len(logical) == 2 and rng.chance(1, 2):
        logical.reverse()          # both flattening orders of the two uses
    for l in logical:
        m.lcon(l)
    _strip_types(cfg, ['CondLinConEQ', 'CondLinConLE', 'CondLinConLT', 'CondLinConGE', 'CondLinConGT'])
    if rng.chance(2, 3):
        _strip_types(cfg, ['IfThenConstraint', 'AndConstraint', 'OrConstraint', 'NotConstraint', 'CountConstraint'])
    return m, grids


def gen_pl2_case(rng, cfg):
    """several piecewise-linear terms over variables with different domains (some lower bounds at / beyond the first
    or second breakpoint, so that the converter shortens the term) with PL NOT accepted natively, in any order"""
    m = Model()
    grids = []
    nterms = rng.rint(2, 3)
    y = m.var(F(-8), F(12), False)
    grids.append([F(-8), F(-2), F(0), F(3), F(12)])
    terms = []
    for _ in range(nterms):
        nb = rng.rint(1, 3)
        b0 = rng.rint(-2, 3)
        bps = [F(b0)]
        for _k in range(nb - 1):
            bps.append(bps[-1] + rng.rint(1, 3))
        slopes = [F(rng.rint(-2, 3))]
        for _k in range(nb):
            sl = F(rng.rint(-2, 4))
            if sl == slopes[-1]:
                sl += 1
            slopes.append(sl)
        pat = rng.below(4)
        if pat == 0:        # starts left of every breakpoint
            lo = int(bps[0]) - rng.rint(1, 3)
        elif pat == 1:      # starts at / beyond the first breakpoint
            lo = int(bps[0]) + rng.rint(0, 1)
        elif pat == 2:      # starts at / beyond the second breakpoint (if any)
            lo = int(bps[min(1, nb - 1)]) + rng.rint(0, 1)
        else:
            lo = int(bps[-1]) - 1
        hi = max(lo + rng.rint(1, 4), int(bps[0]) + 1)
        isint = rng.chance(2, 3)
        j = m.var(lo, hi, isint)
        g = [F(v) for v in range(lo, hi + 1)]
        if not isint and hi - lo <= 3:
            g = sorted(set(g + [F(2 * lo + 1, 2)]))
        grids.append(g)
        terms.append(('pl', slopes, bps, j))
    # keep the grid small
    while True:
        tot = 1
        for g in grids:
            tot *= len(g)
        if tot <= 400:
            break
        k = max(range(1, len(grids)), key=lambda k: len(grids[k]))
        grids[k] = grids[k][::2] if len(grids[k]) > 2 else grids[k]
        if all(len(g) <= 2 for g in grids[1:]):
            break
    how = rng.below(3)
    if how == 0:            # one row per term
        for t in terms:
            c0 = F(rng.rint(-4, 10))
            if rng.chance(1, 2):
                m.con(None, c0, lin={y: 1}, nl=t)
            else:
                m.con(c0 - 6, c0, lin={y: 1}, nl=t)
    elif how == 1:          # all terms in one row
        m.con(F(rng.rint(-10, 0)), F(rng.rint(2, 14)), lin={y: 1}, nl=('sum', list(terms)))
    else:                   # objective + rows
        m.obj(rng.choice(['min', 'max']), lin={y: 1}, nl=terms[0])
        for t in terms[1:]:
            m.con(None, F(rng.rint(-2, 10)), lin={y: 1}, nl=t)
    _strip_types(cfg, ['PLConstraint'])
    if rng.chance(1, 2) and cfg.get('sos', 1):
        if 'SOS2Constraint' not in cfg['accept']:
            cfg['accept'].append('SOS2Constraint')
        cfg['options'] = [o for o in cfg['options'] if not o.startswith(('acc:sos2=', 'cvt:sos2='))]
    return m, grids


def gen_misc_case(rng, cfg):
    """count over NUMERIC arguments (non-binary: reified through `arg != 0`), alldiff / not-alldiff over small integer
    variables (unary encoding), numberof with a variable reference value"""
    m = Model()
    grids = []
    k = rng.rint(2, 3)
    xs = []
    for _ in range(k):
        lo = rng.rint(-1, 1)
        hi = lo + rng.rint(1, 2)
        xs.append(m.var(lo, hi, True)); grids.append([F(v) for v in range(lo, hi + 1)])
    z = m.var(0, 1, True); grids.append([F(0), F(1)])
    y = m.var(F(-6), F(8), False); grids.append([F(-6), F(0), F(1), F(2), F(8)])
    what = rng.below(4)
    if what == 0:
        # (numeric arguments are rejected by the NL reader: "expected logical expression"; the non-binary branch of
        # count.h is therefore not reachable from NL input)
        e = ('count', [('ne', ('v', j), ('n', F(0))) for j in xs] + ([('eq', ('v', z), ('n', 1))] if rng.chance(1, 2) else []))
        c0 = F(rng.rint(0, k))
        if rng.chance(1, 2):
            m.con(c0, None if rng.chance(1, 2) else c0 + 1, lin={y: 1}, nl=e)
        else:
            m.lcon((rng.choice(['ge', 'le', 'eq']), e, ('n', c0)))
        _strip_types(cfg, ['CountConstraint'])
    elif what == 1:
        L = ('alldiff', [('v', j) for j in xs])
        m.lcon(L if rng.chance(2, 3) else ('or', L, ('eq', ('v', z), ('n', 1))))
        _strip_types(cfg, ['AllDiffConstraint'])
    elif what == 2:
        L = ('notalldiff', [('v', j) for j in xs])
        m.lcon(L if rng.chance(1, 2) else ('implies', ('eq', ('v', z), ('n', 1)), L, ('T',)))
        _strip_types(cfg, ['AllDiffConstraint'])
    else:
        e = ('numberof', ('v', xs[0]), [('v', j) for j in xs[1:]] + [('n', F(rng.rint(-1, 2)))])
        m.con(None, F(rng.rint(0, 2)), lin={y: 1}, nl=e)
        _strip_types(cfg, ['NumberofVarConstraint'])
    if rng.chance(1, 2):
        m.con(None, F(rng.rint(1, 4)), lin={xs[0]: 1, xs[1]: 1})
    return m, grids


def gen_levels_case(rng, cfg):
    """a continuous variable restricted to fractional LEVELS: two or three reified comparisons `y == c` of the same variable with dyadic
    non-integer constants, at least two of them with the same integer part (1/4 and 3/4, 5/4 and 3/2 ...): they are different entries
    of the converter's var==const map (`map_vars_eq_const_`, keyed by (variable, constant)); each is used in its own place
    (disjunction / count / implication / if-condition / objective term)."""
    m = Model()
    grids = []
    base = rng.rint(-1, 1)
    span = rng.rint(1, 2)
    y = m.var(base, base + span, False); grids.append([F(base) + F(k, 4) for k in range(4 * span + 1)])
    x = m.var(0, 3, True); grids.append([F(v) for v in range(4)])
    z = m.var(0, 1, True); grids.append([F(0), F(1)])
    ip = base + rng.below(span)                       # common integer part (as trunc towards -inf of the non-negative fraction added)
    fr = rng.choice([(1, 3), (1, 2), (2, 3), (1, 3), (2, 1), (3, 1)])
    c1, c2 = F(ip) + F(fr[0], 4), F(ip) + F(fr[1], 4)
    E1 = ('eq', ('v', y), ('n', c1))
    E2 = ('eq', ('v', y), ('n', c2))
    others = [F(base) + F(k, 4) for k in range(4 * span + 1) if F(base) + F(k, 4) not in (c1, c2)]
    E3 = ('eq', ('v', y), ('n', rng.choice(others)))
    use3 = rng.chance(1, 3)
    # at most ONE of the comparisons may be in a negative/mixed context, otherwise the converter wants the unary encoding and refuses
    # for a continuous variable (DontNeedEqEncForVar / cvt:uenc:negctx:max): the count shape (all mixed) is kept at 1/8 for that refusal
    first = rng.choice([0, 0, 0, 2, 2, 3, 3, 1])
    if first == 0:
        m.lcon(('or', E1, E2) if not use3 else ('exists', [E1, E2, E3]))
    elif first == 1:
        m.lcon(('ge', ('count', [E1, E2] + ([E3] if use3 else [])), ('n', 1)))
    elif first == 2:
        m.lcon(('or', E1, ('eq', ('v', z), ('n', 1))))
    else:
        m.con(F(1), None, lin={z: 1}, nl=('if', E1, ('n', 1), ('n', 0)))
    second = rng.below(5)
    X = ('ge', ('v', x), ('n', F(rng.rint(1, 3)))) if rng.chance(1, 2) else ('le', ('v', x), ('n', F(rng.rint(0, 2))))
    if second == 0:
        m.lcon(('implies', E2, X, ('T',)))
    elif second == 1:
        m.lcon(('iff', E2, X))
    elif second == 2:
        c0 = F(rng.rint(0, 3))
        m.con(c0, c0 + rng.rint(0, 1), nl=('if', E2, ('v', x), ('n', F(rng.rint(0, 3)))))
    elif second == 3:
        m.obj(rng.choice(['min', 'max']), lin={x: F(rng.choice([1, -1])), y: F(rng.choice([1, -1, 2]))},
              nl=('*', ('n', F(rng.choice([4, -4, 2]))), ('if', E2, ('n', 1), ('n', 0))))
        m.con(None, F(rng.rint(2, 4)), lin={x: 1, z: 1})
    else:
        m.lcon(('or', ('not', E2), X))
    _strip_types(cfg, ['CondLinConEQ'])
    if rng.chance(2, 3):
        _strip_types(cfg, ['OrConstraint', 'AndConstraint', 'NotConstraint', 'CountConstraint', 'IfThenConstraint', 'ImplicationConstraint'])
    return m, grids


TEMPLATE_KINDS = ['shared', 'pl2', 'pow', 'levels', 'shared', 'div', 'pl2', 'compl', 'misc', 'levels']


def gen_pow_case(rng, cfg):
    """powers with constant natural exponents (x^2 via sqr / ^2, x^3, x^4, x*x), exact when quadratics are accepted"""
    m = Model()
    grids = []
    y = m.var(F(-20), F(40), False); grids.append([F(-20), F(-3), F(0), F(5), F(40)])
    xs = []
    for _ in range(rng.rint(1, 2)):
        pat = rng.below(4)
        lo = [0, -2, -3, 1][pat]
        hi = lo + rng.rint(1, 3) if pat != 2 else 0
        isint = rng.chance(1, 2)
        xs.append(m.var(lo, hi, isint))
        g = [F(v) for v in range(lo, hi + 1)]
        if not isint:
            g = sorted(set(g + [F(2 * lo + 1, 2)]))
        grids.append(g)

    def pw(j):
        k = rng.below(6)
        if k == 0:
            return ('sqr', ('v', j))
        if k == 1:
            return ('powc', ('v', j), ('n', F(2)))
        if k == 2:
            return ('powc', ('v', j), ('n', F(3)))
        if k == 3:
            return ('powc', ('v', j), ('n', F(rng.choice([4, 1, 0]))))
        if k == 4:
            return ('*', ('v', j), ('v', j))
        return ('powc', ('+', ('v', j), ('n', F(1))), ('n', F(2)))
    for j in xs:
        e = pw(j)
        if rng.chance(1, 3):
            e = ('*', ('n', F(rng.choice([-1, 2, -2]))), e)
        c0 = F(rng.rint(-4, 12))
        r = rng.below(3)
        if r == 0:
            m.con(None, c0, lin={y: 1}, nl=e)
        elif r == 1:
            m.con(c0 - 8, None, lin={y: 1}, nl=e)
        else:
            m.con(c0 - 3, c0 + 3, lin={y: 1}, nl=e)
    if rng.chance(1, 3):
        m.obj(rng.choice(['min', 'max']), lin={y: 1}, nl=pw(xs[0]))
    if rng.chance(5, 6):          # quadratics accepted: the exact route
        for t in QUAD3 + ['QuadConRange']:
            if t not in cfg['accept']:
                cfg['accept'].append(t)
        cfg['options'] = [o for o in cfg['options'] if not o.startswith(('acc:quad', 'cvt:quadcon'))]
    return m, grids


def gen_div_case(rng, cfg):
    """division by a variable (positive / negative / zero-crossing divisor domain) and by fixed variables"""
    m = Model()
    grids = []
    y = m.var(F(-12), F(12), False); grids.append([F(-12), F(-2), F(0), F(1), F(12)])
    a = rng.rint(1, 4)
    x = m.var(-a, a, True); grids.append([F(v) for v in range(-a, a + 1)])
    pat = rng.below(4)
    lo, hi = [(1, 4), (-3, -1), (-2, 2), (2, 2)][pat]
    d = m.var(lo, hi, True); grids.append([F(v) for v in range(lo, hi + 1)])
    num = rng.choice([('v', x), ('+', ('v', x), ('n', F(1))), ('*', ('n', F(2)), ('v', x)), ('n', F(4))])
    e = ('/', num, ('v', d))
    c0 = F(rng.rint(-3, 5))
    r = rng.below(4)
    if r == 0:
        m.con(None, c0, lin={y: 1}, nl=e)
    elif r == 1:
        m.con(c0, None, lin={y: 1}, nl=e)
    elif r == 2:
        m.con(c0, c0 + 2, lin={y: 1}, nl=e)
    else:
        m.lcon((rng.choice(['le', 'ge', 'eq']), e, ('n', F(rng.rint(-2, 2)))))
    if rng.chance(5, 6):
        for t in QUAD3 + ['QuadConRange']:
            if t not in cfg['accept']:
                cfg['accept'].append(t)
        cfg['options'] = [o for o in cfg['options'] if not o.startswith(('acc:quad', 'cvt:quadcon'))]
    _strip_types(cfg, ['DivConstraint'])
    return m, grids


def gen_compl_case(rng, cfg):
    """complementarity rows `body complements x_j` for the three bound patterns of the complementing variable, linear and
    (sometimes) quadratic bodies; ComplementarityLinear/Quadratic accepted natively or reformulated"""
    m = Model()
    grids = []
    pat = rng.below(4)
    if pat == 0:
        lo, hi = 0, None          # x >= 0
    elif pat == 1:
        lo, hi = None, rng.rint(0, 2)
    else:
        lo = rng.rint(-1, 1)
        hi = lo + rng.rint(1, 3)
    isint = rng.chance(2, 3)
    glo = lo if lo is not None else hi - 3
    ghi = hi if hi is not None else lo + 3
    x = m.var(lo, hi, isint); grids.append([F(v) for v in range(glo, ghi + 1)])
    b = rng.rint(1, 3)
    y = m.var(-b, b, True); grids.append([F(v) for v in range(-b, b + 1)])
    z = m.var(0, 1, True); grids.append([F(0), F(1)])
    lin = {y: F(rng.choice([1, -1, 2])), z: F(rng.choice([1, -1, 2, -2]))}
    if rng.chance(1, 2):
        lin[x] = F(rng.choice([1, -1]))
    nl = ('n', F(rng.rint(-2, 2)))
    if rng.chance(1, 5):
        nl = ('+', ('*', ('v', y), ('v', z)), nl)
    m.con(None, None, lin=lin, nl=nl)
    m.cons[-1]['compl'] = (x, 3 if (lo is not None and hi is not None) else (1 if lo is not None else 2))
    if rng.chance(1, 2):
        m.con(None, F(rng.rint(0, 4)), lin={x: 1, y: 1})
    if rng.chance(1, 3):
        m.obj(rng.choice(['min', 'max']), lin={x: 1, y: F(rng.choice([1, -2]))})
    if rng.chance(2, 3):
        _strip_types(cfg, ['ComplementarityLinear', 'ComplementarityQuadratic'])
    else:
        for t in ('ComplementarityLinear', 'ComplementarityQuadratic'):
            if t not in cfg['accept']:
                cfg['accept'].append(t)
    return m, grids


def gen_case(seed, index, tier='quick'):
    rng = Rng((seed * 0x9E3779B1 + index * 0x85EBCA77 + 12345) & 0xFFFFFFFFFFFFFFFF)
    if index % 8 == 3:
        # targeted templates (1/8 of the stream): shared reified comparisons / several PL terms
        kind = TEMPLATE_KINDS[(index // 8) % len(TEMPLATE_KINDS)]
        cfg, quad_con, quad_obj = gen_cfg(rng, 'mixed')
        mm, grids = {'shared': gen_shared_case, 'pl2': gen_pl2_case, 'pow': gen_pow_case, 'div': gen_div_case,
                     'compl': gen_compl_case, 'misc': gen_misc_case, 'levels': gen_levels_case}[kind](rng, cfg)
        return {'model': model_to_json(mm, grids), 'cfg': cfg, 'profile': 'tmpl-' + kind, 'id': '%d:%d' % (seed, index)}
    profile = PROFILE_ORDER[index % len(PROFILE_ORDER)]
    cfg, quad_con, quad_obj = gen_cfg(rng, profile)
    g = Gen(rng, profile, quad_con, quad_obj)
    g.make_vars()
    dmax = rng.choice([1, 2, 2, 3]) if tier == 'quick' else rng.choice([1, 2, 2, 3, 3, 4])
    nalg = rng.rint(0, 2) if profile != 'quad' else rng.rint(1, 2)
    nlog = rng.rint(0, 2) if profile != 'logic' else rng.rint(2, 3)
    if profile == 'logic':
        nalg = rng.rint(0, 1)
    if nalg + nlog == 0:
        nalg = 1
    order = ['a'] * nalg + ['l'] * nlog
    for i in range(len(order) - 1, 0, -1):
        t = rng.below(i + 1)
        order[i], order[t] = order[t], order[i]
    for k in order:
        if k == 'a' and quad_con and rng.chance(1, 3 if profile == 'quad' else 8):
            g.add_monoprod_con(rng.rint(1, dmax))
        elif k == 'a':
            g.add_alg_con(rng.rint(1, dmax))
        else:
            g.add_log_con(rng.rint(1, dmax))
    if rng.chance(3, 5):
        g.add_obj(rng.rint(1, dmax))
    if rng.chance(1, 12):
        g.add_sos()
    for sset in getattr(g.m, 'sos', []):
        t = 'SOS1Constraint' if sset['type'] == 1 else 'SOS2Constraint'
        if cfg['sos'] and t not in cfg['accept'] and rng.chance(3, 4):
            cfg['accept'].append(t)
            cfg['options'] = [o for o in cfg['options'] if not o.startswith('acc:sos%d=' % sset['type'])]
    J = model_to_json(g.m, g.grids)
    return {'model': J, 'cfg': cfg, 'profile': profile, 'id': '%d:%d' % (seed, index)}

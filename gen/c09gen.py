"""C09 case generator: NL models (valid of every operator mix, infeasible, unsupported, big-M, malformed)
x option strings x invocation modes x names files x output path states x injected/scripted faults.

A case is a dict:
  id, family, nl (text or None = no file), col/row (text or None), argv_flags [..], stub(bool), ampl(bool),
  options [(text, tok)], env {..}, script (text or None), outpath ('ok'|'isdir'|'dangling'|'devfull'|'readonly'),
  header (ncons, nvars) or None, expect = dict(stage, raise, code) | 'none' | None (unknown -> inferred),
  answer (code, havex, havepi), synthetic(bool)
Every random choice comes from the Rng passed in.
"""
import sys, os, re
sys.path.insert(0, os.path.dirname(os.path.abspath(__file__)))
from nlgen import Model, Rng, BIN_NUM, UN_NUM, REL, CNT
from fractions import Fraction as F

# option tokens with their class in the model (validated by the corpus/calibration cases in checks/c09.py)
OPT_OK = ['cvt:bigM=100000', 'cvt:bigm=1e4', 'acc:abs=0', 'acc:or=0', 'acc:and=1', 'cvt:pre:all=0', 'tech:timing=0',
          'cvt:names=0', 'cvt:names=2', 'cvt:names=3', 'obj:no=1', 'objno=0', 'sol:chk:mode=0', 'cvt:sos=0',
          'acc:indle=0', 'acc:indeq=0', 'acc:indge=0', 'cvt:plapprox:reltol=0.1', 'tech:debug=0', 'cvt:mip:eps=1e-4',
          'sol:chk:feastol=1e-5', 'cvt:quadobj=0', 'cvt:quadcon=0', 'acc:max=0', 'acc:min=0', 'cvt:pre:eqresult=0',
          # round 3 (coverage): timing / time report in the message and as suffixes / version / value queries / rounding / multi-objective
          'tech:timing=1', 'tech:reporttimes=1', 'version', 'cvt:bigM=?', 'wantsol=?', 'mip:round=1', 'mip:round=7', 'alg:relax=1',
          'obj:multi=1', 'acc:indle=1', 'acc:indge=1', 'acc:indeq=1', 'sol:chk:mode=1023']
OPT_BAD = ['foo=1', 'frobnicate', 'acc:nosuchcon=1', 'cvt:bigM=abc', 'obj:no=x', 'cvt:names=yes', 'sol:chk:fail=1',
           '=3', 'tech:timing=1.5', 'tech:optionfile=/nonexistent/opts']
OPT_INVALID = ['tech:timing=9', 'tech:timing=2', 'obj:multi=2', 'tech:timing=-1', 'wantsol=16', 'wantsol=-1', 'objno=-1', 'obj:multi=5']
WANTSOL = [0, 1, 2, 3, 4, 5, 8, 9, 15]

UNSUPPORTED_OPS = ['rem', 'atan2', 'intdiv', 'precision', 'round', 'trunc', 'less']
PL_UNARY = ['sin', 'cos', 'tan', 'exp', 'log', 'log10', 'sqrt', 'tanh', 'sinh', 'cosh', 'atan', 'asin', 'acos', 'asinh', 'acosh', 'atanh']


def dy(r, lo=-8, hi=8, den=(1, 2, 4)):
    return F(r.rint(lo * 4, hi * 4), 4) if r.chance(1, 3) else F(r.rint(lo, hi))


class G:
    def __init__(self, r):
        self.r = r

    # ---------------------------------------------------------------- expressions
    def num(self, m, depth, ops):
        r = self.r
        n = len(m.vars)
        if depth <= 0 or r.chance(1, 4):
            return ('v', r.below(n)) if r.chance(3, 4) else ('n', dy(r))
        k = r.choice(ops)
        if k in ('+', '-', '*'):
            return (k, self.num(m, depth - 1, ops), self.num(m, depth - 1, ops))
        if k == '/':
            return ('/', self.num(m, depth - 1, ops), ('n', r.choice([2, 4, -2, 8])))
        if k == 'pow' and r.chance(1, 4):
            # general power with a constant *expression* as base and a variable exponent: (1+1)^x
            return ('pow', ('+', ('n', 1), ('n', r.choice([1, 2]))), ('v', r.below(n)))
        if k in ('pow', 'powc'):
            return (k, self.num(m, depth - 1, ops), ('n', r.choice([2, 3, 2, 4])))
        if k == 'cpow':
            return (k, ('n', r.choice([2, 3])), self.num(m, depth - 1, ops))
        if k in BIN_NUM:
            return (k, self.num(m, depth - 1, ops), self.num(m, depth - 1, ops))
        if k in UN_NUM:
            return (k, self.num(m, depth - 1, ops))
        if k in ('sum', 'min', 'max'):
            return (k, [self.num(m, depth - 1, ops) for _ in range(r.rint(1, 3))])
        if k == 'if':
            return ('if', self.log(m, depth - 1, ops), self.num(m, depth - 1, ops), self.num(m, depth - 1, ops))
        if k == 'count':
            return ('count', [self.log(m, depth - 1, ops) for _ in range(r.rint(1, 3))])
        if k == 'numberof':
            return ('numberof', self.num(m, depth - 1, ops), [self.num(m, depth - 1, ops) for _ in range(r.rint(1, 3))])
        if k == 'pl':
            nb = r.rint(1, 3)
            bps = sorted({F(r.rint(-6, 6)) for _ in range(nb)})
            slopes = [F(r.rint(-3, 3)) for _ in range(len(bps) + 1)]
            return ('pl', slopes, bps, r.below(n))
        return ('v', r.below(n))

    def log(self, m, depth, ops):
        r = self.r
        if depth <= 0 or r.chance(1, 3):
            return (r.choice(REL), self.num(m, depth - 1, ops), self.num(m, 0, ops))
        k = r.choice(['or', 'and', 'not', 'forall', 'exists', 'implies', 'iff', 'cnt', 'alldiff', 'rel', 'const'])
        if k in ('or', 'and', 'iff'):
            return (k, self.log(m, depth - 1, ops), self.log(m, depth - 1, ops))
        if k == 'not':
            return ('not', self.log(m, depth - 1, ops))
        if k in ('forall', 'exists'):
            return (k, [self.log(m, depth - 1, ops) for _ in range(r.rint(1, 3))])
        if k == 'implies':
            return ('implies', self.log(m, depth - 1, ops), self.log(m, depth - 1, ops),
                    self.log(m, depth - 1, ops) if r.chance(1, 3) else ('T',))
        if k == 'cnt':
            return (r.choice(CNT), ('n', r.rint(0, 3)), ('count', [self.log(m, depth - 1, ops) for _ in range(r.rint(1, 3))]))
        if k == 'alldiff':
            return (r.choice(['alldiff', 'notalldiff']), [self.num(m, 0, ops) for _ in range(r.rint(2, 3))])
        if k == 'const':
            return ('T',) if r.chance(1, 2) else ('F',)
        return (r.choice(REL), self.num(m, depth - 1, ops), self.num(m, depth - 1, ops))

    # ---------------------------------------------------------------- models
    def base_vars(self, m, bounded=True):
        r = self.r
        for _ in range(r.rint(1, 5)):
            kind = r.below(4)
            if kind == 0:
                m.var(0, 1, True)
            elif kind == 1:
                lo = r.rint(-5, 3)
                m.var(lo, lo + r.rint(0, 8), True)
            else:
                lo = dy(r, -6, 2)
                if bounded or r.chance(2, 3):
                    m.var(lo, lo + dy(r, 0, 9))
                else:
                    m.var(None if r.chance(1, 2) else lo, None)

    def lin(self, m):
        r = self.r
        n = len(m.vars)
        return {j: dy(r, -4, 4) or F(1) for j in range(n) if r.chance(2, 3)}

    def add_lin_cons(self, m, k):
        r = self.r
        for _ in range(k):
            t = r.below(4)
            lo = dy(r, -10, 5)
            if t == 0:
                m.con(lo, None, self.lin(m))
            elif t == 1:
                m.con(None, lo + 10, self.lin(m))
            elif t == 2:
                m.con(lo, lo + dy(r, 0, 12), self.lin(m))
            else:
                m.con(lo, lo, self.lin(m))

    def add_suffixes(self, m):
        """input suffixes of every kind (var / con / obj / problem, int / float); none of them is an output suffix"""
        r = self.r
        if not r.chance(1, 3):
            return
        if r.chance(1, 2):
            m.suffixes.append({'name': 'zork', 'kind': 0, 'float': False, 'vals': {0: r.rint(1, 5)}})
        if m.cons and r.chance(1, 2):
            m.suffixes.append({'name': 'bar', 'kind': 1, 'float': True, 'vals': {0: F(r.rint(1, 9), 2)}})
        if m.objs and r.chance(2, 3):
            m.suffixes.append({'name': 'objpriority', 'kind': 2, 'float': False, 'vals': {i: r.rint(1, 3) for i in range(len(m.objs))}})
            if r.chance(1, 2):
                m.suffixes.append({'name': 'objweight', 'kind': 2, 'float': True, 'vals': {i: F(r.rint(1, 4)) for i in range(len(m.objs))}})
            if r.chance(1, 3):
                m.suffixes.append({'name': 'objabstol', 'kind': 2, 'float': True, 'vals': {0: F(1, 2)}})
                m.suffixes.append({'name': 'objreltol', 'kind': 2, 'float': True, 'vals': {0: F(1, 4)}})
        if r.chance(1, 3):
            m.suffixes.append({'name': 'prob1', 'kind': 3, 'float': False, 'vals': {0: 7}})

    def add_start(self, m, what=None, basis=None):
        """incoming start values and basis (what AMPL sends when a solved problem is solved again):
        what in 'x' | 'd' | 'xd' | '' (initial primal / dual values), basis in 'none' | 'var' | 'con' | 'both'
        (.sstatus suffixes on variables / constraints).  Returns (what, basis)."""
        r = self.r
        if what is None:
            what = r.choice(['x', 'd', 'xd', 'xd', 'xd', ''])
        if basis is None:
            basis = r.choice(['none', 'none', 'var', 'con', 'both', 'both'])
        n, k = len(m.vars), len(m.cons)
        if 'x' in what:
            full = r.chance(2, 3)
            m.x0 = {j: dy(r, -3, 6) for j in range(n) if full or r.chance(1, 2)} or {0: F(1)}
        if 'd' in what and k:
            full = r.chance(2, 3)
            m.pi0 = {i: dy(r, -4, 4) for i in range(k) if full or r.chance(1, 2)} or {0: F(1, 2)}
        if basis in ('var', 'both'):
            m.suffixes.append({'name': 'sstatus', 'kind': 0, 'float': False, 'vals': {j: r.rint(1, 6) for j in range(n)}})
        if basis in ('con', 'both') and k:
            m.suffixes.append({'name': 'sstatus', 'kind': 1, 'float': False, 'vals': {i: r.rint(1, 6) for i in range(k)}})
        return what, basis

    def model_lp(self):
        m = Model()
        self.base_vars(m)
        self.add_lin_cons(m, self.r.rint(0, 4))
        for _ in range(self.r.choice([0, 1, 1, 1, 2, 3])):
            m.obj(self.r.choice(['min', 'max']), self.lin(m))
        self.add_suffixes(m)
        return m

    def model_mix(self, ops=None, bounded=True):
        """valid model with a random operator mix"""
        r = self.r
        m = Model()
        self.base_vars(m, bounded)
        allops = ['+', '-', '*', '/', 'pow', 'powc', 'cpow', 'abs', 'neg', 'sqr', 'sum', 'min', 'max', 'if', 'count', 'numberof',
                  'pl', 'floor', 'ceil'] + PL_UNARY
        if ops is None:
            ops = [r.choice(allops) for _ in range(r.rint(1, 4))] + ['+', '*']
        self.add_lin_cons(m, r.rint(0, 2))
        for _ in range(r.rint(0, 3)):
            lo = dy(r, -10, 5)
            m.con(lo if r.chance(2, 3) else None, lo + dy(r, 0, 20) if r.chance(2, 3) else None, self.lin(m) if r.chance(1, 2) else {},
                  self.num(m, r.rint(1, 3), ops))
        for _ in range(r.rint(0, 3)):
            m.lcon(self.log(m, r.rint(1, 3), ops))
        for _ in range(r.choice([0, 1, 1, 2])):
            m.obj(r.choice(['min', 'max']), self.lin(m), self.num(m, r.rint(1, 2), ops) if r.chance(1, 2) else None)
        m.ops = ops
        return m

    def model_infeasible(self):
        """infeasible by bounds or by fixed logic; returns (model, how)"""
        r = self.r
        m = self.model_lp() if r.chance(1, 2) else self.model_mix(['+', '*', 'abs'])
        how = r.choice(['lcon_false', 'lcon_const_cmp', 'var_bounds', 'con_bounds', 'fixed_logic', 'fixed_var_con'])
        if how == 'lcon_false':
            m.lcon(('F',))
        elif how == 'lcon_const_cmp':
            m.lcon(('lt', ('n', 1), ('n', 0)))
        elif how == 'var_bounds':
            m.var(3, 1, r.chance(1, 2))
        elif how == 'con_bounds':
            m.con(5, 2, self.lin(m) or {0: 1})
        elif how == 'fixed_logic':
            b = m.var(1, 1, True)
            m.lcon(('not', ('eq', ('v', b), ('n', 1))))
        else:
            x = m.var(2, 2)
            m.con(5, None, {x: 1})
        return m, how

    def model_unsupported(self):
        r = self.r
        m = self.model_lp()
        op = r.choice(UNSUPPORTED_OPS)
        e = (op, ('v', 0), ('n', 3)) if op in BIN_NUM else (op, ('v', 0))
        if r.chance(1, 2):
            m.con(0, None, {}, e)
        else:
            m.lcon(('le', e, ('n', 2)))
        if r.chance(1, 3):
            m.obj('min', {}, e)        # (never only in an objective: objno=0 would drop it)
        return m, op

    def model_bigm(self):
        """implication / disjunction over an unbounded variable; needs big-M when indicators are not accepted"""
        r = self.r
        m = Model()
        x = m.var(None, None) if r.chance(1, 2) else m.var(0, None)
        b = m.var(0, 1, True)
        y = m.var(-3, 7)
        m.obj('min', {x: 1, y: 1})
        if r.chance(1, 2):
            m.lcon(('implies', ('eq', ('v', b), ('n', 1)), ('le', ('v', x), ('n', 3)), ('T',)))
        else:
            m.lcon(('or', ('le', ('+', ('v', x), ('v', y)), ('n', 2)), ('ge', ('v', x), ('n', 9))))
        return m


def nl_text(m, tmp_stub):
    m.write(tmp_stub, names=True)
    nl = open(tmp_stub + '.nl').read()
    col = open(tmp_stub + '.col').read()
    row = open(tmp_stub + '.row').read()
    for e in ('.nl', '.col', '.row'):
        os.remove(tmp_stub + e)
    return nl, col, row


def header_dims(nl):
    """independent, minimal parse of the dimensions line of a text NL header:
    (ncons_algebraic, nvars, nobjs) or None.  Lenient on everything else: whether the driver accepts
    the header is observed, not predicted; these numbers only matter if a .sol is written."""
    lines = nl.split('\n')
    if len(lines) < 2 or not lines[0].startswith('g'):
        return None
    try:
        l1 = lines[1].split('#')[0].split()
        nvars, ncons, nobj = int(l1[0]), int(l1[1]), int(l1[2])
        if min(nvars, ncons, nobj) < 0:
            return None
        return (ncons, nvars, nobj)
    except Exception:
        return None


def header_inconsistent(nl):
    """True if the ten header lines parse but the counts contradict each other (more nonlinear / integer
    variables than variables, more nonlinear constraints than constraints, negative counts)"""
    L = nl.split('\n')
    try:
        n = [[int(float(t)) for t in L[k].split('#')[0].split()] for k in range(1, 10)]
        nvars, ncons, nobjs = n[0][0], n[0][1], n[0][2]
        allv = [v for row in n for v in row]
        if min(allv) < 0:
            return True
        nlc, nlo = n[1][0], n[1][1]
        nlvc, nlvo, nlvb = n[3][0], n[3][1], n[3][2]
        nbv, niv, nlvbi, nlvci, nlvoi = n[5][:5]
        return (max(nlvc, nlvo, nlvb, nbv + niv, nlvbi, nlvci, nlvoi, max(nlvc, nlvo) + nbv + niv) > nvars
                or nlc > ncons or nlo > nobjs or nlvb > min(nlvc, nlvo) or max(allv) > 10 ** 7)
    except Exception:
        return False


def undefined_logical_cons(nl):
    """True if the header declares more logical constraints than there are L segments in the text"""
    L = nl.split('\n')
    try:
        nlog = int(L[1].split('#')[0].split()[5])
    except Exception:
        return False
    have = {l for l in L[10:] if re.fullmatch(r'L\d+', l.split('#')[0].strip())}
    return nlog > len(have)

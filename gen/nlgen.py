"""Structure-aware generator/writer for text .nl files + exact reference evaluator.

Expressions are tuples:
  ('n', Fraction|int)            numeric constant
  ('v', j)                       variable j
  (op, a, b) / (op, a)           binary / unary numeric ops: + - * / neg abs pow min2 max2 ...
  ('sum', [e...]) ('min', [e...]) ('max', [e...])
  ('if', c, a, b)                numeric if-then-else (c logical)
  ('count', [l...]) ('numberof', e0, [e...])
  ('pl', slopes, breakpoints, j) piecewise-linear term of variable j (AMPL <<bp; sl>> x)
  ('dv', k)                      defined variable (NL common expression) k of Model.defvars (writer only; no reference semantics)
logical:
  ('T',) ('F',) ('lt'|'le'|'eq'|'ge'|'gt'|'ne', a, b) ('not', l) ('or', a, b) ('and', a, b)
  ('forall', [l...]) ('exists', [l...]) ('implies', c, t, e) ('iff', a, b)
  ('atleast'|'atmost'|'exactly'|'notatleast'|'notatmost'|'notexactly', e, ('count', [...]))
  ('alldiff', [e...]) ('notalldiff', [e...])
Everything is evaluated exactly over fractions.Fraction.
"""
from fractions import Fraction as F
import math

OPC = {'+': 0, '-': 1, '*': 2, '/': 3, 'rem': 4, 'pow': 5, 'less': 6, 'floor': 13, 'ceil': 14, 'abs': 15, 'neg': 16,
       'or': 20, 'and': 21, 'lt': 22, 'le': 23, 'eq': 24, 'ge': 28, 'gt': 29, 'ne': 30, 'not': 34, 'if': 35,
       'tanh': 37, 'tan': 38, 'sqrt': 39, 'sinh': 40, 'sin': 41, 'log10': 42, 'log': 43, 'exp': 44, 'cosh': 45,
       'cos': 46, 'atanh': 47, 'atan2': 48, 'atan': 49, 'asinh': 50, 'asin': 51, 'acosh': 52, 'acos': 53,
       'sum': 54, 'intdiv': 55, 'precision': 56, 'round': 57, 'trunc': 58, 'count': 59, 'numberof': 60,
       'atleast': 62, 'atmost': 63, 'pl': 64, 'exactly': 66, 'notatleast': 67, 'notatmost': 68, 'notexactly': 69,
       'forall': 70, 'exists': 71, 'implies': 72, 'iff': 73, 'alldiff': 74, 'notalldiff': 75,
       'powc': 76, 'sqr': 77, 'cpow': 78, 'min': 11, 'max': 12}
BIN_NUM = ['+', '-', '*', '/', 'rem', 'pow', 'less', 'intdiv', 'powc', 'cpow', 'atan2', 'precision', 'round', 'trunc']
UN_NUM = ['floor', 'ceil', 'abs', 'neg', 'sqr', 'tanh', 'tan', 'sqrt', 'sinh', 'sin', 'log10', 'log', 'exp', 'cosh',
          'cos', 'atanh', 'atan', 'asinh', 'asin', 'acosh', 'acos']
REL = ['lt', 'le', 'eq', 'ge', 'gt', 'ne']
CNT = ['atleast', 'atmost', 'exactly', 'notatleast', 'notatmost', 'notexactly']


def fnum(x):
    """NL text for a number (exact for dyadic rationals of moderate size; else 17 significant digits)"""
    x = F(x)
    if x.denominator == 1:
        return str(x.numerator)
    f = float(x)
    s = repr(f)
    return s


def wexpr(e, out):
    k = e[0]
    if k == 'n':
        out.append('n' + fnum(e[1]))
    elif k == 'v' or k == 'vraw':
        out.append('v%d' % e[1])
    elif k == 'dvx':                      # C20 extension: defined variable (common expression), already an NL index
        out.append('v%d' % e[1])
    elif k in ('T', 'F'):
        out.append('n1' if k == 'T' else 'n0')
    elif k in ('sum', 'min', 'max', 'forall', 'exists', 'alldiff', 'notalldiff', 'count'):
        out.append('o%d' % OPC[k])
        out.append(str(len(e[1])))
        for a in e[1]:
            wexpr(a, out)
    elif k == 'numberof':
        out.append('o%d' % OPC[k])
        out.append(str(len(e[2]) + 1))
        wexpr(e[1], out)
        for a in e[2]:
            wexpr(a, out)
    elif k == 'pl':
        slopes, bps, j = e[1], e[2], e[3]
        out.append('o64')
        out.append(str(len(slopes)))
        for i, s in enumerate(slopes):
            out.append('n' + fnum(s))
            if i < len(bps):
                out.append('n' + fnum(bps[i]))
        out.append('v%d' % j)
    else:
        out.append('o%d' % OPC[k])
        for a in e[1:]:
            wexpr(a, out)


class Undefined(Exception):
    pass


def ev(e, x):
    """exact value of numeric/logical expression at point x (list of Fractions); logical -> bool"""
    k = e[0]
    if k == 'n':
        return F(e[1])
    if k == 'v':
        return F(x[e[1]])
    if k == 'T':
        return True
    if k == 'F':
        return False
    if k == '+':
        return ev(e[1], x) + ev(e[2], x)
    if k == '-':
        return ev(e[1], x) - ev(e[2], x)
    if k == '*':
        return ev(e[1], x) * ev(e[2], x)
    if k == '/':
        d = ev(e[2], x)
        if d == 0:
            raise Undefined('div0')
        return ev(e[1], x) / d
    if k == 'neg':
        return -ev(e[1], x)
    if k == 'abs':
        return abs(ev(e[1], x))
    if k == 'sqr':
        return ev(e[1], x) ** 2
    if k in ('pow', 'powc', 'cpow'):
        b, p = ev(e[1], x), ev(e[2], x)
        if p.denominator != 1:
            raise Undefined('fractional power')
        if p < 0 and b == 0:
            raise Undefined('0^neg')
        return b ** int(p)
    if k == 'floor':
        return F(math.floor(ev(e[1], x)))
    if k == 'ceil':
        return F(math.ceil(ev(e[1], x)))
    if k == 'less':
        return max(F(0), ev(e[1], x) - ev(e[2], x))
    if k == 'sum':
        return sum((ev(a, x) for a in e[1]), F(0))
    if k == 'min':
        return min(ev(a, x) for a in e[1])
    if k == 'max':
        return max(ev(a, x) for a in e[1])
    if k == 'if':
        return ev(e[2], x) if ev(e[1], x) else ev(e[3], x)
    if k == 'count':
        return F(sum(1 for a in e[1] if ev(a, x)))
    if k == 'numberof':
        v0 = ev(e[1], x)
        return F(sum(1 for a in e[2] if ev(a, x) == v0))
    if k == 'pl':
        return ev_pl(e[1], e[2], F(x[e[3]]))
    if k in REL:
        a, b = ev(e[1], x), ev(e[2], x)
        return {'lt': a < b, 'le': a <= b, 'eq': a == b, 'ge': a >= b, 'gt': a > b, 'ne': a != b}[k]
    if k == 'not':
        return not ev(e[1], x)
    if k == 'or':
        return ev(e[1], x) or ev(e[2], x)
    if k == 'and':
        return ev(e[1], x) and ev(e[2], x)
    if k == 'forall':
        return all(ev(a, x) for a in e[1])
    if k == 'exists':
        return any(ev(a, x) for a in e[1])
    if k == 'implies':
        return ev(e[2], x) if ev(e[1], x) else ev(e[3], x)
    if k == 'iff':
        return bool(ev(e[1], x)) == bool(ev(e[2], x))
    if k in CNT:
        n, c = ev(e[1], x), ev(e[2], x)
        r = {'atleast': c >= n, 'atmost': c <= n, 'exactly': c == n,
             'notatleast': not (c >= n), 'notatmost': not (c <= n), 'notexactly': c != n}[k]
        return r
    if k == 'alldiff':
        vals = [ev(a, x) for a in e[1]]
        return len(set(vals)) == len(vals)
    if k == 'notalldiff':
        vals = [ev(a, x) for a in e[1]]
        return len(set(vals)) != len(vals)
    raise Undefined('no exact semantics for ' + k)


def ev_pl(slopes, bps, x):
    """AMPL piecewise-linear term <<bps; slopes>> x : value 0 at x=0, slope slopes[i] between bps[i-1], bps[i]"""
    slopes = [F(s) for s in slopes]
    bps = [F(b) for b in bps]
    # integrate slope from 0 to x

    def slope_at(t_lo, t_hi):
        mid = (t_lo + t_hi) / 2
        i = 0
        while i < len(bps) and mid > bps[i]:
            i += 1
        return slopes[i]
    pts = sorted(set([F(0), x] + [b for b in bps if min(F(0), x) < b < max(F(0), x)]))
    val = F(0)
    for a, b in zip(pts, pts[1:]):
        val += slope_at(a, b) * (b - a)
    return val if x >= 0 else -val


class Model:
    def __init__(self):
        self.vars = []    # dict(lb, ub, int, name)
        self.objs = []    # dict(sense, lin{j:c}, nl, name)   constant goes into nl (as NL does)
        self.cons = []    # dict(lb, ub, lin{j:c}, nl, name)
        self.lcons = []   # dict(expr, name)
        self.suffixes = []  # dict(name, kind 0 var/1 con/2 obj/3 prob, float(bool), vals{idx:val})
        self.defvars = []   # dict(lin{j:c}, nl): AMPL defined variables, referenced as ('dv', k)
        self.x0 = {}
        self.dvars = []   # C19 extension: defined variables dict(lin{j:c}, nl, name); referenced as ('dv', k)
        self.pi0 = {}
        self.name = 'gen'

    def var(self, lb, ub, integer=False, name=None):
        self.vars.append({'lb': lb, 'ub': ub, 'int': bool(integer), 'name': name or 'x%d' % len(self.vars)})
        return len(self.vars) - 1

    def obj(self, sense, lin=None, nl=None, name=None):
        self.objs.append({'sense': sense, 'lin': dict(lin or {}), 'nl': nl, 'name': name or 'obj%d' % len(self.objs)})

    def con(self, lb, ub, lin=None, nl=None, name=None):
        self.cons.append({'lb': lb, 'ub': ub, 'lin': dict(lin or {}), 'nl': nl, 'name': name or 'c%d' % len(self.cons)})

    def lcon(self, expr, name=None):
        self.lcons.append({'expr': expr, 'name': name or 'l%d' % len(self.lcons)})

    # ---- reference semantics
    def con_body(self, c, x):
        v = sum((F(cf) * F(x[j]) for j, cf in c['lin'].items()), F(0))
        if c['nl'] is not None:
            v += ev(c['nl'], x)
        return v

    def obj_value(self, o, x):
        v = sum((F(cf) * F(x[j]) for j, cf in o['lin'].items()), F(0))
        if o['nl'] is not None:
            v += ev(o['nl'], x)
        return v

    def feasible(self, x):
        for j, v in enumerate(self.vars):
            if v['lb'] is not None and F(x[j]) < F(v['lb']):
                return False
            if v['ub'] is not None and F(x[j]) > F(v['ub']):
                return False
            if v['int'] and F(x[j]).denominator != 1:
                return False
        for c in self.cons:
            b = self.con_body(c, x)
            if c['lb'] is not None and b < F(c['lb']):
                return False
            if c['ub'] is not None and b > F(c['ub']):
                return False
        for l in self.lcons:
            if not ev(l['expr'], x):
                return False
        return True

    # ---- NL writer (text)
    def order(self):
        """NL variable order; returns perm: list of model var indices in NL order, and header counts.
        All variables are declared nonlinear 'in both' if the model has any nonlinear/logical part,
        otherwise linear (continuous, binary, other integer)."""
        n = len(self.vars)
        has_nl = any(c['nl'] is not None for c in self.cons) or any(o['nl'] is not None for o in self.objs) or self.lcons
        cont = [j for j in range(n) if not self.vars[j]['int']]
        ints = [j for j in range(n) if self.vars[j]['int']]
        if has_nl:
            return cont + ints, {'nlvc': n, 'nlvo': n, 'nlvb': n, 'nbv': 0, 'niv': 0, 'nlvbi': len(ints), 'nlvci': 0, 'nlvoi': 0}
        bins = [j for j in ints if self.vars[j]['lb'] == 0 and self.vars[j]['ub'] == 1]
        oint = [j for j in ints if j not in bins]
        return cont + bins + oint, {'nlvc': 0, 'nlvo': 0, 'nlvb': 0, 'nbv': len(bins), 'niv': len(oint), 'nlvbi': 0, 'nlvci': 0, 'nlvoi': 0}

    def write(self, stub, names=True):
        perm, h = self.order()
        pos = {j: i for i, j in enumerate(perm)}          # model index -> NL position
        n = len(self.vars)

        def remap(e):
            if e[0] == 'v':
                return ('v', pos[e[1]])
            if e[0] == 'dv':
                return ('vraw', n + e[1])
            if e[0] == 'pl':
                return ('pl', e[1], e[2], pos[e[3]])
            if e[0] in ('n', 'T', 'F'):
                return e
            if e[0] in ('sum', 'min', 'max', 'forall', 'exists', 'alldiff', 'notalldiff', 'count'):
                return (e[0], [remap(a) for a in e[1]])
            if e[0] == 'numberof':
                return (e[0], remap(e[1]), [remap(a) for a in e[2]])
            return (e[0],) + tuple(remap(a) for a in e[1:])
        nranges = sum(1 for c in self.cons if c['lb'] is not None and c['ub'] is not None and F(c['lb']) != F(c['ub']))
        neqns = sum(1 for c in self.cons if c['lb'] is not None and c['ub'] is not None and F(c['lb']) == F(c['ub']))
        nlc = sum(1 for c in self.cons if c['nl'] is not None)
        nlo = sum(1 for o in self.objs if o['nl'] is not None)
        nzc = sum(len(c['lin']) for c in self.cons)
        nzo = sum(len(o['lin']) for o in self.objs)
        L = []
        L.append('g3 1 1 0\t# problem %s' % self.name)
        L.append(' %d %d %d %d %d %d' % (n, len(self.cons), len(self.objs), nranges, neqns, len(self.lcons)))
        ncc_lin = sum(1 for c in self.cons if c.get('compl') is not None and c['nl'] is None)
        ncc_nl = sum(1 for c in self.cons if c.get('compl') is not None and c['nl'] is not None)
        if ncc_lin or ncc_nl:      # C19 extension: complementarity rows (con['compl'] = (var, flags))
            L.append(' %d %d %d %d 0 0' % (nlc, nlo, ncc_lin, ncc_nl))
        else:
            L.append(' %d %d' % (nlc, nlo))
        L.append(' 0 0')
        L.append(' %d %d %d' % (h['nlvc'], h['nlvo'], h['nlvb']))
        L.append(' 0 0 0 1')
        L.append(' %d %d %d %d %d' % (h['nbv'], h['niv'], h['nlvbi'], h['nlvci'], h['nlvoi']))
        L.append(' %d %d' % (nzc, nzo))
        L.append(' 0 0')
        # two builders added defined variables independently: Model.dvars (C19: counted as 'in both', V segments
        # written just before the C segments) and Model.defvars (C04: counted as 'in constraints', V segments here).
        # A model uses at most one of the two lists; ('dv', k) indexes whichever is non-empty.
        ndv = len(getattr(self, 'defvars', []))
        if getattr(self, 'dvars', []):
            assert not ndv, 'use either Model.dvars or Model.defvars'
            L.append(' %d 0 0 0 0' % len(self.dvars))
        else:
            L.append(' 0 %d 0 0 0' % ndv if ndv else ' 0 0 0 0 0')
        for k, dv in enumerate(getattr(self, 'defvars', [])):
            L.append('V%d %d 0' % (n + k, len(dv['lin'])))
            for j in sorted(dv['lin'], key=lambda j: pos[j]):
                L.append('%d %s' % (pos[j], fnum(dv['lin'][j])))
            out = []
            wexpr(remap(dv['nl']) if dv.get('nl') is not None else ('n', 0), out)
            L += out
        # NL requires nonlinear constraints first: we keep model order but then all cons must be
        # either all-nonlinear-first; simplest: reorder so that nonlinear cons come first
        corder = [i for i, c in enumerate(self.cons) if c['nl'] is not None] + [i for i, c in enumerate(self.cons) if c['nl'] is None]
        self.con_order = corder
        oorder = [i for i, o in enumerate(self.objs) if o['nl'] is not None] + [i for i, o in enumerate(self.objs) if o['nl'] is None]
        self.obj_order = oorder
        for k, dv in enumerate(getattr(self, 'dvars', [])):
            L.append('V%d %d 0' % (n + k, len(dv['lin'])))
            for j in sorted(dv['lin'], key=lambda j: pos[j]):
                L.append('%d %s' % (pos[j], fnum(dv['lin'][j])))
            out = []
            wexpr(remap(dv['nl']) if dv['nl'] is not None else ('n', 0), out)
            L += out
        for k, i in enumerate(corder):
            L.append('C%d' % k)
            out = []
            wexpr(remap(self.cons[i]['nl']) if self.cons[i]['nl'] is not None else ('n', 0), out)
            L += out
        for k, l in enumerate(self.lcons):
            L.append('L%d' % k)
            out = []
            wexpr(remap(l['expr']), out)
            L += out
        for k, i in enumerate(oorder):
            o = self.objs[i]
            L.append('O%d %d' % (k, 1 if o['sense'] == 'max' else 0))
            out = []
            wexpr(remap(o['nl']) if o['nl'] is not None else ('n', 0), out)
            L += out
        if self.pi0:
            inv = {i: k for k, i in enumerate(corder)}
            L.append('d%d' % len(self.pi0))
            for i in sorted(self.pi0, key=lambda i: inv[i]):
                L.append('%d %s' % (inv[i], fnum(self.pi0[i])))
        if self.x0:
            L.append('x%d' % len(self.x0))
            for j in sorted(self.x0, key=lambda j: pos[j]):
                L.append('%d %s' % (pos[j], fnum(self.x0[j])))
        L.append('r')
        for i in corder:
            c = self.cons[i]
            lb, ub = c['lb'], c['ub']
            if c.get('compl') is not None:
                L.append('5 %d %d' % (c['compl'][1], pos[c['compl'][0]] + 1))
                continue
            if lb is None and ub is None:
                L.append('3')
            elif lb is None:
                L.append('1 %s' % fnum(ub))
            elif ub is None:
                L.append('2 %s' % fnum(lb))
            elif F(lb) == F(ub):
                L.append('4 %s' % fnum(lb))
            else:
                L.append('0 %s %s' % (fnum(lb), fnum(ub)))
        L.append('b')
        for j in perm:
            v = self.vars[j]
            lb, ub = v['lb'], v['ub']
            if lb is None and ub is None:
                L.append('3')
            elif lb is None:
                L.append('1 %s' % fnum(ub))
            elif ub is None:
                L.append('2 %s' % fnum(lb))
            elif F(lb) == F(ub):
                L.append('4 %s' % fnum(lb))
            else:
                L.append('0 %s %s' % (fnum(lb), fnum(ub)))
        if n > 1 and self.cons:
            cnt = [0] * n
            for c in self.cons:
                for j in c['lin']:
                    cnt[pos[j]] += 1
            L.append('k%d' % (n - 1))
            s = 0
            for i in range(n - 1):
                s += cnt[i]
                L.append(str(s))
        for k, i in enumerate(corder):
            c = self.cons[i]
            if c['lin']:
                L.append('J%d %d' % (k, len(c['lin'])))
                for j in sorted(c['lin'], key=lambda j: pos[j]):
                    L.append('%d %s' % (pos[j], fnum(c['lin'][j])))
        for k, i in enumerate(oorder):
            o = self.objs[i]
            if o['lin']:
                L.append('G%d %d' % (k, len(o['lin'])))
                for j in sorted(o['lin'], key=lambda j: pos[j]):
                    L.append('%d %s' % (pos[j], fnum(o['lin'][j])))
        for s in self.suffixes:
            kind = s['kind'] | (4 if s['float'] else 0)
            vals = s['vals']
            L.append('S%d %d %s' % (kind, len(vals), s['name']))
            if s['kind'] == 0:
                keyf = lambda j: pos[j]
            elif s['kind'] == 1:
                invc = {i: k for k, i in enumerate(corder)}
                keyf = lambda i: invc[i]
            elif s['kind'] == 2:
                invo = {i: k for k, i in enumerate(oorder)}
                keyf = lambda i: invo[i]
            else:
                keyf = lambda i: i
            for idx in sorted(vals, key=keyf):
                L.append('%d %s' % (keyf(idx), fnum(vals[idx]) if s['float'] else str(int(vals[idx]))))
        open(stub + '.nl', 'w').write('\n'.join(L) + '\n')
        if names:
            open(stub + '.col', 'w').write('\n'.join(self.vars[j]['name'] for j in perm) + '\n')
            rows = [self.cons[i]['name'] for i in corder] + [l['name'] for l in self.lcons] + [self.objs[i]['name'] for i in oorder]
            open(stub + '.row', 'w').write('\n'.join(rows) + '\n')
        self.perm = perm
        self.pos = pos
        return perm


class Rng:
    """splitmix64, same as the C++/Lean side"""
    def __init__(self, seed):
        self.s = seed & 0xFFFFFFFFFFFFFFFF

    def next(self):
        self.s = (self.s + 0x9e3779b97f4a7c15) & 0xFFFFFFFFFFFFFFFF
        z = self.s
        z = ((z ^ (z >> 30)) * 0xbf58476d1ce4e5b9) & 0xFFFFFFFFFFFFFFFF
        z = ((z ^ (z >> 27)) * 0x94d049bb133111eb) & 0xFFFFFFFFFFFFFFFF
        return z ^ (z >> 31)

    def below(self, n):
        return self.next() % n

    def choice(self, lst):
        return lst[self.below(len(lst))]

    def chance(self, num, den):
        return self.below(den) < num

    def rint(self, lo, hi):
        return lo + self.below(hi - lo + 1)

#!/bin/bash
# Offline setup: build the Lean library (models, lemmas, property theorems) and the compiled model drivers.
# A failing `lake build` makes this script fail (pipefail): a tree whose committed generated files or proofs do not
# build must not look set up.
set -e -o pipefail
cd "$(dirname "$0")"
mkdir -p build evidence replay
cd lean
lake build 2>&1 | tail -5
# model drivers (lean_exe targets)
for exe in $(grep -A1 '^\[\[lean_exe\]\]' lakefile.toml | grep '^name' | sed 's/.*"\(.*\)"/\1/'); do
  lake build "$exe" 2>&1 | tail -1
done
echo "setup ok"

#!/usr/bin/env python3
"""Run checks against seeded changes: tools_run_seeded.py [seed-id ...]   (default: all under seeded/)
For each seeded/<id>/: a scratch worktree of /repo HEAD is created under /tmp/seedrun/<id>, patch.diff is applied,
the property's quick check runs with MP_REPO pointing there, the worktree is removed, and the result
(VIOLATION lines, stage that caught it) is written to seeded/<id>/result.json.  Afterwards the generated
Lean files are restored by re-running the translators on the clean /repo (checks do that themselves)."""
import json, os, subprocess, sys, shutil, time
V = os.path.dirname(os.path.abspath(__file__))
ids = sys.argv[1:] or sorted(d for d in os.listdir(os.path.join(V, 'seeded')) if os.path.isdir(os.path.join(V, 'seeded', d)))
tier = os.environ.get('SEED_TIER', 'quick')
# The checks regenerate lean/MpVerif/Gen/* (and rewrite evidence/*) from the tree under test.  Snapshot the clean-tree
# state once and put it back after EVERY seed, so that what is on disk between runs (and what a `git commit -a` would
# pick up) is never the state generated from a changed tree.
SNAP = os.path.join(V, 'build', 'seedrun_snapshot.%d' % os.getpid())
TRACK = ['lean/MpVerif/Gen', 'evidence']
def snapshot():
    shutil.rmtree(SNAP, ignore_errors=True)
    for t in TRACK:
        shutil.copytree(os.path.join(V, t), os.path.join(SNAP, t))
def restore():
    for t in TRACK:
        src, dst = os.path.join(SNAP, t), os.path.join(V, t)
        for f in os.listdir(dst):
            if not os.path.exists(os.path.join(src, f)):
                os.remove(os.path.join(dst, f))
        for f in os.listdir(src):
            a, b = os.path.join(src, f), os.path.join(dst, f)
            if not os.path.exists(b) or open(a, 'rb').read() != open(b, 'rb').read():
                shutil.copy2(a, b)
snapshot()
for sid in ids:
    d = os.path.join(V, 'seeded', sid)
    meta = json.load(open(os.path.join(d, 'meta.json')))
    prop = meta['property']
    wt = '/tmp/seedrun/' + sid
    subprocess.run(['git', '-C', '/repo', 'worktree', 'remove', '--force', wt], capture_output=True)
    shutil.rmtree(wt, ignore_errors=True)
    os.makedirs('/tmp/seedrun', exist_ok=True)
    subprocess.run(['git', '-C', '/repo', 'worktree', 'add', '-q', '--detach', wt, 'HEAD'], check=True)
    r = subprocess.run(['git', '-C', wt, 'apply', os.path.join(d, 'patch.diff')], capture_output=True, text=True)
    res = {'seed': sid, 'property': prop, 'tier': tier, 'applies': r.returncode == 0}
    if r.returncode != 0:
        res['apply_error'] = r.stderr[-500:]
    else:
        t = time.time()
        checks = meta.get('checks', [prop])
        res['runs'] = []
        for c in checks:
            p = subprocess.run(['./check', c, '--tier', tier], cwd=V, capture_output=True, text=True,
                               env=dict(os.environ, MP_REPO=wt, VERIF_SEED=os.environ.get('VERIF_SEED', '1')))
            vio = [l for l in p.stdout.split('\n') if l.startswith('VIOLATION')]
            sigs = []
            for l in vio:
                try:
                    rp = l.split('replay=')[1].split()[0]
                    sigs.append(json.load(open(os.path.join(V, rp)))['signature'])
                except Exception:
                    pass
            res['runs'].append({'check': c, 'exit': p.returncode, 'violations': len(vio),
                                'with_failing_input': sum(1 for l in vio if 'no-failing-input-found' not in l),
                                'signatures': sigs[:12], 'tail': p.stdout[-600:]})
        res['wall_s'] = round(time.time() - t, 1)
        res['caught'] = any(r_['exit'] != 0 and r_['violations'] > 0 for r_ in res['runs'])
    subprocess.run(['git', '-C', '/repo', 'worktree', 'remove', '--force', wt], capture_output=True)
    shutil.rmtree(wt, ignore_errors=True)
    json.dump(res, open(os.path.join(d, 'result.json'), 'w'), indent=1)
    restore()
    print(sid, 'caught' if res.get('caught') else 'MISSED', [(r_['check'], r_['violations'], r_['with_failing_input']) for r_ in res.get('runs', [])], res.get('apply_error', ''))
restore()
shutil.rmtree(SNAP, ignore_errors=True)

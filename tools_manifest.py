#!/usr/bin/env python3
"""Regenerates MANIFEST.json from checks/registry.py (single source of truth for what is claimed)."""
import json, os, sys
sys.path.insert(0, os.path.join(os.path.dirname(os.path.abspath(__file__)), 'checks'))
from registry import CLAIMED, NOT_APPLICABLE, HOOK_COMMITS
ids = [json.loads(l)['id'] for l in open(os.path.join(os.path.dirname(os.path.abspath(__file__)), 'properties.jsonl'))]
checks = []
for pid in ids:
    if pid in CLAIMED:
        c = CLAIMED[pid]
        checks.append({
            'property_id': pid,
            'quick_cmd': './check %s --tier quick' % pid,
            'thorough_cmd': './check %s --tier thorough' % pid,
            'evidence_file': 'evidence/%s.json' % pid,
            'replay_cmd_template': './check %s --replay {path}' % pid,
            'engine': 'lean4-proof+correspondence',
            'level_claimed': {'category': 'proof', 'text': c['text'], 'design_ref': c.get('design_ref', 'DESIGN.md §5 ' + pid)},
            'level_note': c['note'],
            'technique': c['technique'],
        })
na = [{'property_id': p, 'reason': NOT_APPLICABLE[p]} for p in ids if p not in CLAIMED]
missing = [p for p in ids if p not in CLAIMED and p not in NOT_APPLICABLE]
assert not missing, missing
m = {
    'version': 1,
    'setup_cmd': './setup.sh',
    'hooks': {
        'guard': 'AMPL_MP_VERIF',
        'enable': 'every harness is compiled by ./check with -DAMPL_MP_VERIF against /repo working-tree sources',
        'baseline_off_cmd': 'cmake --build /repo/_build -j16 && ctest --test-dir /repo/_build -j8 --timeout 900',
        'source_commits': HOOK_COMMITS,
        'add_only': True,
    },
    'engines': [{'name': 'lean4-proof+correspondence', 'path': 'check', 'serves_properties': [p for p in ids if p in CLAIMED],
                 'kind_free_text': 'Lean 4 theorems about (generated or hand-written) models + differential correspondence with the real C++ on every run'}],
    'checks': checks,
    'not_applicable': na,
    'notes': 'See DESIGN.md. Fixed defects and open findings: known_findings.json.',
}
json.dump(m, open(os.path.join(os.path.dirname(os.path.abspath(__file__)), 'MANIFEST.json'), 'w'), indent=1)
print('MANIFEST.json: %d checks, %d not_applicable' % (len(checks), len(na)))

#!/usr/bin/env python3
"""resolve a merge conflict in known_findings.json: union of findings by id (ours wins on equal ids)"""
import json, subprocess, sys
ours = json.loads(subprocess.run(['git', 'show', ':2:known_findings.json'], capture_output=True, text=True).stdout)
theirs = json.loads(subprocess.run(['git', 'show', ':3:known_findings.json'], capture_output=True, text=True).stdout)
ids = {f['id'] for f in ours['findings']}
for f in theirs['findings']:
    if f['id'] not in ids:
        ours['findings'].append(f)
        print('added', f['id'], f['status'])
json.dump(ours, open('known_findings.json', 'w'), indent=1)

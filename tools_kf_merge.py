#!/usr/bin/env python3
"""resolve a merge conflict in known_findings.json: union of findings by id (ours wins on equal ids)"""
import json, subprocess, sys
OWN = set(sys.argv[1:])   # properties owned by the branch being merged: only their entries may overwrite ours
ours = json.loads(subprocess.run(['git', 'show', ':2:known_findings.json'], capture_output=True, text=True).stdout)
theirs = json.loads(subprocess.run(['git', 'show', ':3:known_findings.json'], capture_output=True, text=True).stdout)
ids = {(f['property'], f['id']): i for i, f in enumerate(ours['findings'])}
LEAD_OWNED = ('C08', 'C10', 'C17', 'C14')     # entries the lead edits on main
for f in theirs['findings']:
    if (f['property'], f['id']) not in ids:
        ours['findings'].append(f)
        print('added', f['id'], f['status'])
    elif f != ours['findings'][ids[(f['property'], f['id'])]] and f['property'] not in LEAD_OWNED and (not OWN or f['property'] in OWN):
        ours['findings'][ids[(f['property'], f['id'])]] = f          # the owning builder's later version wins
        print('updated', f['id'], f['status'])
json.dump(ours, open('known_findings.json', 'w'), indent=1)
